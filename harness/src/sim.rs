//! Engine driver: one in-process instance of the real engine behind the real JSON-RPC method
//! table, an op language for indexer calls and reads, hand-assembled EVM test contracts,
//! deterministic signed transactions, a growing universe of things to ask about, the full
//! observation over that universe, and history generators (mostly-valid + malformed stream).
//!
//! Nothing here is a model: it only drives `brc20_prog` and records what it answers.
#![allow(dead_code)]
use std::collections::{BTreeMap, BTreeSet, HashMap};
use std::panic::{catch_unwind, AssertUnwindSafe};
use std::path::{Path, PathBuf};
use std::sync::{Mutex, Once, OnceLock};
use std::time::Duration;

use alloy::consensus::transaction::RlpEcdsaEncodableTx;
use alloy::consensus::{SignableTransaction, TxLegacy};
use alloy::primitives::{keccak256, Address, Bytes, TxKind, B256, U256};
use alloy::sol_types::{sol, SolCall};
use alloy_signer::SignerSync;
use alloy_signer_local::PrivateKeySigner;
use base64::prelude::BASE64_STANDARD_NO_PAD;
use base64::Engine as _;
use brc20_prog::verif_hooks as vh;
use serde::{Deserialize, Deserializer, Serialize, Serializer};
use serde_json::{json, Value};

pub use brc20_prog::verif_hooks::Ev;

use crate::rng::Rng;

/// Chain id of the test networks ("BRC20s").
pub const CHAIN_ID: u64 = 0x4252_4332_3073;
/// Gas cap of eth_call / eth_estimateGas used by the harness configuration (a config value of the
/// crate; the default 1e9 makes every out-of-gas read take seconds in a dev build).
pub const CALL_GAS_LIMIT: u64 = 20_000_000;
pub const CONTROLLER: &str = "c54dd4581af2dbf18e4d90840226756e9d2b3cdb";
pub const INDEXER: &str = "0000000000000000000000000000000000003ca6";
pub const INVALID: &str = "000000000000000000000000000000000000dead";
// generous: a verdict of the clock must not depend on how busy the machine is
const WATCHDOG: Duration = Duration::from_secs(45);

// ------------------------------------------------------------------------------------------
// bytes that print as 0x-hex in JSON
// ------------------------------------------------------------------------------------------

#[derive(Clone, PartialEq, Eq, PartialOrd, Ord, Hash, Default)]
pub struct Hx(pub Vec<u8>);
impl Hx {
    pub fn hex(&self) -> String { hex::encode(&self.0) }
    pub fn hex0x(&self) -> String { format!("0x{}", hex::encode(&self.0)) }
    pub fn from_hex(s: &str) -> Hx { Hx(hex::decode(s.trim_start_matches("0x")).unwrap_or_default()) }
    pub fn zero32() -> Hx { Hx(vec![0u8; 32]) }
    pub fn is_zero(&self) -> bool { self.0.iter().all(|b| *b == 0) }
    pub fn addr(a: Address) -> Hx { Hx(a.0.to_vec()) }
    pub fn b256(h: B256) -> Hx { Hx(h.0.to_vec()) }
    pub fn u256(x: U256) -> Hx { Hx(x.to_be_bytes::<32>().to_vec()) }
    pub fn n32(x: u64) -> Hx { Hx::u256(U256::from(x)) }
    pub fn to_address(&self) -> Address { if self.0.len() == 20 { Address::from_slice(&self.0) } else { Address::ZERO } }
}
impl std::fmt::Debug for Hx {
    fn fmt(&self, f: &mut std::fmt::Formatter<'_>) -> std::fmt::Result { write!(f, "0x{}", hex::encode(&self.0)) }
}
impl Serialize for Hx {
    fn serialize<S: Serializer>(&self, s: S) -> Result<S::Ok, S::Error> { s.serialize_str(&self.hex0x()) }
}
impl<'de> Deserialize<'de> for Hx {
    fn deserialize<D: Deserializer<'de>>(d: D) -> Result<Hx, D::Error> {
        let s = String::deserialize(d)?;
        hex::decode(s.trim_start_matches("0x")).map(Hx).map_err(serde::de::Error::custom)
    }
}

// ------------------------------------------------------------------------------------------
// process-wide runtime, configuration, panic capture
// ------------------------------------------------------------------------------------------

static RT: OnceLock<tokio::runtime::Runtime> = OnceLock::new();
static INIT: Once = Once::new();
static LAST_PANIC: Mutex<String> = Mutex::new(String::new());

fn rt() -> &'static tokio::runtime::Runtime {
    RT.get_or_init(|| {
        tokio::runtime::Builder::new_multi_thread().worker_threads(3).enable_all().build().expect("tokio runtime")
    })
}

fn init_process(db_path: &Path) {
    INIT.call_once(|| {
        // panics of the driven code are outcomes, not noise: remember the message, print nothing
        std::panic::set_hook(Box::new(|info| {
            let msg = if let Some(s) = info.payload().downcast_ref::<&str>() { s.to_string() }
                else if let Some(s) = info.payload().downcast_ref::<String>() { s.clone() }
                else { "panic".to_string() };
            let loc = info.location().map(|l| format!(" at {}:{}", l.file(), l.line())).unwrap_or_default();
            if std::env::var("HX_SHOW_PANICS").is_ok() { eprintln!("panic: {}{}", msg, loc); }
            if let Ok(mut g) = LAST_PANIC.lock() { *g = format!("{}{}", msg, loc); }
        }));
        let d = vh::Brc20ProgConfig::from_env();
        vh::set_config(vh::Brc20ProgConfig {
            brc20_prog_rpc_server_url: "127.0.0.1:0".to_string(),
            brc20_prog_rpc_server_enable_auth: false,
            brc20_prog_rpc_server_user: None,
            brc20_prog_rpc_server_password: None,
            // a replica that does not record traces (C02: everything but the trace answers must agree)
            evm_record_traces: std::env::var("HX_TRACES_OFF").is_err(),
            evm_call_gas_limit: CALL_GAS_LIMIT,
            // nothing listens there: "connection refused" at once, never a DNS lookup or a hang
            bitcoin_rpc_url: "http://127.0.0.1:9".to_string(),
            bitcoin_rpc_user: String::new(),
            bitcoin_rpc_password: String::new(),
            bitcoin_rpc_network: "regtest".to_string(),
            chain_id: CHAIN_ID,
            fail_on_bitcoin_rpc_error: false,
            db_path: db_path.to_string_lossy().to_string(),
            ..d
        });
        vh::set_recording(true);
    });
}

fn take_panic() -> String {
    LAST_PANIC.lock().map(|mut g| std::mem::take(&mut *g)).unwrap_or_default()
}

// ------------------------------------------------------------------------------------------
// one instance
// ------------------------------------------------------------------------------------------

#[derive(Clone, Debug, PartialEq, Eq, Serialize)]
pub enum RpcFail {
    /// a JSON-RPC error object
    Err { code: i64, message: String },
    /// the handler panicked (message and location of the panic)
    Panic(String),
    /// no answer within the watchdog time; the instance is unusable afterwards
    Hang,
}
pub type RpcErr = RpcFail;

pub struct Inst {
    dir: PathBuf,
    _tmp: Option<tempfile::TempDir>,
    methods: Option<jsonrpsee::Methods>,
    last_events: Vec<Ev>,
    next_id: u64,
    /// set after a panic or a hang: locks may be poisoned, later answers mean little
    pub poisoned: bool,
    hung: bool,
    /// number of requests sent (all instances of this process; for throughput figures)
    pub calls: u64,
    /// when Some: every request sent is appended as [method, params]
    pub recorded: Option<Vec<Value>>,
}

fn open_methods(dir: &Path) -> Result<jsonrpsee::Methods, String> {
    let mut last = String::new();
    for _ in 0..100 {
        match catch_unwind(AssertUnwindSafe(|| vh::Brc20ProgDatabase::new(dir).map_err(|e| e.to_string()))) {
            Ok(Ok(db)) => return Ok(vh::verif_rpc_methods_with_probe(vh::BRC20ProgEngine::new(db))),
            Ok(Err(e)) => last = e,
            Err(_) => last = format!("panic while opening: {}", take_panic()),
        }
        // a RocksDB LOCK still held by a handle that is being dropped on a runtime thread
        std::thread::sleep(Duration::from_millis(10));
    }
    Err(last)
}

impl Inst {
    /// Opens (creating if needed) the database in `dir` and builds engine + RPC method table on it.
    pub fn new(dir: &Path) -> Inst {
        init_process(dir);
        std::fs::create_dir_all(dir).expect("create instance dir");
        let methods = open_methods(dir).expect("open database");
        Inst { dir: dir.to_path_buf(), _tmp: None, methods: Some(methods), last_events: vec![], next_id: 0, poisoned: false, hung: false, calls: 0, recorded: None }
    }

    /// A fresh instance in its own temporary directory (removed when the instance is dropped).
    pub fn temp() -> Inst {
        let base = if Path::new("/dev/shm").is_dir() { PathBuf::from("/dev/shm") } else { std::env::temp_dir() };
        let tmp = tempfile::Builder::new().prefix("hxsim").tempdir_in(base).expect("tempdir");
        let mut i = Inst::new(tmp.path());
        i._tmp = Some(tmp);
        i
    }

    pub fn dir(&self) -> &Path { &self.dir }

    /// Names of the methods registered in the RPC method table (includes the harness's `verif_probe`).
    pub fn method_names(&self) -> Vec<String> {
        self.methods.as_ref().map(|m| m.method_names().map(|s| s.to_string()).collect()).unwrap_or_default()
    }

    /// Sends one raw JSON-RPC 2.0 request through the method table (real parameter decoding),
    /// under a panic guard and a wall-clock watchdog.
    pub fn rpc(&mut self, method: &str, params: Value) -> Result<Value, RpcFail> {
        if self.hung { return Err(RpcFail::Hang); }
        let Some(methods) = self.methods.as_ref().cloned() else { return Err(RpcFail::Panic("instance closed".into())) };
        self.next_id += 1;
        self.calls += 1;
        if let Some(rec) = self.recorded.as_mut() { rec.push(json!([method, params.clone()])); }
        let req = json!({"jsonrpc": "2.0", "id": self.next_id, "method": method, "params": params}).to_string();
        let _ = vh::drain();
        let _ = take_panic();
        let outcome = catch_unwind(AssertUnwindSafe(|| {
            let h = rt().spawn(async move {
                let r = methods.raw_json_request(&req, 1).await.map(|(resp, _rx)| resp.get().to_string());
                drop(methods);
                r
            });
            rt().block_on(async { tokio::time::timeout(WATCHDOG, h).await })
        }));
        self.last_events = vh::drain();
        let joined = match outcome {
            Err(_) => { self.poisoned = true; return Err(RpcFail::Panic(take_panic())); }
            Ok(Err(_elapsed)) => { self.poisoned = true; self.hung = true; return Err(RpcFail::Hang); }
            Ok(Ok(j)) => j,
        };
        let text = match joined {
            Err(e) => {
                self.poisoned = true;
                return Err(RpcFail::Panic(if e.is_panic() { take_panic() } else { format!("task cancelled: {}", e) }));
            }
            Ok(Err(e)) => return Err(RpcFail::Err { code: -32700, message: format!("request not sent: {}", e) }),
            Ok(Ok(t)) => t,
        };
        let v: Value = serde_json::from_str(&text).map_err(|e| RpcFail::Err { code: -32603, message: format!("unparsable response: {}", e) })?;
        if let Some(e) = v.get("error") {
            return Err(RpcFail::Err {
                code: e.get("code").and_then(|c| c.as_i64()).unwrap_or(0),
                message: e.get("message").and_then(|m| m.as_str()).unwrap_or("").to_string(),
            });
        }
        Ok(v.get("result").cloned().unwrap_or(Value::Null))
    }

    /// Store events recorded during the last `rpc` call.
    pub fn events(&mut self) -> Vec<Ev> { std::mem::take(&mut self.last_events) }

    /// Drops engine, method table and every RocksDB handle, then opens the same directory again.
    pub fn reopen_in_place(&mut self) -> Result<(), String> {
        self.methods = None;
        if self.hung { return Err("instance hung; handles cannot be released".into()); }
        let m = open_methods(&self.dir)?;
        self.methods = Some(m);
        self.poisoned = false;
        Ok(())
    }

    pub fn reopen(mut self) -> Inst {
        self.reopen_in_place().expect("reopen");
        self
    }
}

// ------------------------------------------------------------------------------------------
// ops
// ------------------------------------------------------------------------------------------

/// How the payload of deploy / call / transact travels.
#[derive(Clone, Copy, Debug, PartialEq, Eq, Serialize, Deserialize)]
pub enum Enc {
    /// `data` = 0x-hex, `base64_data` = null
    Hex,
    /// `base64_data` = base64(0x00 ++ bytes) (the "uncompressed" prefix)
    Base64,
    /// `base64_data` as produced by the crate's own encoder (picks raw / nada / zstd)
    Base64Packed,
    /// both parameters given (protocol violation)
    Both,
    /// both parameters given, one of them undecodable (still a protocol violation: both are PRESENT)
    BothBadHex,
    BothBadBase64,
    /// both null (protocol violation)
    Neither,
    /// `data` = a string that is not hex
    BadHex,
    /// `base64_data` = a string that is not base64
    BadBase64,
    /// `base64_data` = "" (decodes to zero bytes: no prefix byte)
    EmptyBase64,
}

/// Position of a transaction in the open block / the count given to finalise.
#[derive(Clone, Copy, Debug, PartialEq, Eq, Serialize, Deserialize)]
pub enum Idx {
    /// whatever is right according to the receipts seen so far (resolved by `Run::step`)
    Auto,
    /// right value plus an offset (always wrong if the offset is not 0)
    Off(i64),
    Abs(u64),
}

#[derive(Clone, Debug, PartialEq, Eq, Serialize, Deserialize)]
pub struct Tail {
    pub ts: u64,
    pub hash: Hx,
    pub tx_idx: Idx,
    pub insc_id: String,
    pub byte_len: u64,
    pub op_return_tx_id: Hx,
}

#[derive(Clone, Debug, PartialEq, Eq, Serialize, Deserialize)]
pub enum To { ByAddress(Hx), ByInscription(String), None }

#[derive(Clone, Debug, PartialEq, Eq, Serialize, Deserialize)]
pub struct CallSpec { pub from: Option<Hx>, pub to: Option<Hx>, pub data: Hx }

#[derive(Clone, Debug, PartialEq, Serialize, Deserialize)]
pub enum Op {
    Initialise { hash: Hx, ts: u64, height: u64 },
    Mine { n: u64, ts: u64 },
    Deploy { from_pkscript: String, data: Hx, enc: Enc, tail: Tail },
    Call { from_pkscript: String, to: To, data: Hx, enc: Enc, tail: Tail },
    Transact { raw_tx: Hx, enc: Enc, tail: Tail },
    Deposit { to_pkscript: String, ticker: String, amount: String, ts: u64, hash: Hx, tx_idx: Idx, insc_id: String },
    Withdraw { from_pkscript: String, ticker: String, amount: String, ts: u64, hash: Hx, tx_idx: Idx, insc_id: String },
    Finalise { ts: u64, hash: Hx, tx_count: Idx },
    Commit,
    Clear,
    Reorg(u64),
    Reopen,
    // ---- reads ----
    EthCall { from: Option<Hx>, to: Option<Hx>, data: Hx, block: Option<String> },
    EthCallMany { calls: Vec<CallSpec>, block: Option<String>, op_return_tx_ids: Option<Vec<Hx>> },
    EstimateGas { from: Option<Hx>, to: Option<Hx>, data: Hx, block: Option<String> },
    EstimateGasMany { calls: Vec<CallSpec>, block: Option<String> },
    Balance { pkscript: String, ticker: String },
    GetLogs { from: Option<String>, to: Option<String>, address: Option<Hx>, topics: Option<Value> },
    /// any other query (eth_get*, debug_*, txpool_*, brc20_get*, static eth_*/net_*/web3_*), positional parameters
    Query { method: String, params: Value },
}

impl Op {
    pub fn kind(&self) -> &'static str {
        match self {
            Op::Initialise { .. } => "Initialise", Op::Mine { .. } => "Mine", Op::Deploy { .. } => "Deploy",
            Op::Call { .. } => "Call", Op::Transact { .. } => "Transact", Op::Deposit { .. } => "Deposit",
            Op::Withdraw { .. } => "Withdraw", Op::Finalise { .. } => "Finalise", Op::Commit => "Commit",
            Op::Clear => "Clear", Op::Reorg(_) => "Reorg", Op::Reopen => "Reopen", Op::EthCall { .. } => "EthCall",
            Op::EthCallMany { .. } => "EthCallMany", Op::EstimateGas { .. } => "EstimateGas",
            Op::EstimateGasMany { .. } => "EstimateGasMany", Op::Balance { .. } => "Balance",
            Op::GetLogs { .. } => "GetLogs", Op::Query { .. } => "Query",
        }
    }
    pub fn is_read(&self) -> bool {
        matches!(self, Op::EthCall { .. } | Op::EthCallMany { .. } | Op::EstimateGas { .. } | Op::EstimateGasMany { .. }
            | Op::Balance { .. } | Op::GetLogs { .. } | Op::Query { .. })
    }
    /// transaction-carrying indexer call
    pub fn is_tx(&self) -> bool {
        matches!(self, Op::Deploy { .. } | Op::Call { .. } | Op::Transact { .. } | Op::Deposit { .. } | Op::Withdraw { .. })
    }
    /// (timestamp, block hash, tx index) the call names, for transaction-carrying calls and finalise
    pub fn block_fields(&self) -> Option<(u64, &Hx, Idx)> {
        match self {
            Op::Deploy { tail, .. } | Op::Call { tail, .. } | Op::Transact { tail, .. } => Some((tail.ts, &tail.hash, tail.tx_idx)),
            Op::Deposit { ts, hash, tx_idx, .. } | Op::Withdraw { ts, hash, tx_idx, .. } => Some((*ts, hash, *tx_idx)),
            Op::Finalise { ts, hash, tx_count } => Some((*ts, hash, *tx_count)),
            _ => None,
        }
    }
    pub fn set_idx(&mut self, i: Idx) {
        match self {
            Op::Deploy { tail, .. } | Op::Call { tail, .. } | Op::Transact { tail, .. } => tail.tx_idx = i,
            Op::Deposit { tx_idx, .. } | Op::Withdraw { tx_idx, .. } => *tx_idx = i,
            Op::Finalise { tx_count, .. } => *tx_count = i,
            _ => {}
        }
    }
    pub fn set_block(&mut self, nts: u64, nhash: &Hx) {
        match self {
            Op::Deploy { tail, .. } | Op::Call { tail, .. } | Op::Transact { tail, .. } => { tail.ts = nts; tail.hash = nhash.clone(); }
            Op::Deposit { ts, hash, .. } | Op::Withdraw { ts, hash, .. } | Op::Finalise { ts, hash, .. } => { *ts = nts; *hash = nhash.clone(); }
            _ => {}
        }
    }
    pub fn insc_id(&self) -> Option<&str> {
        match self {
            Op::Deploy { tail, .. } | Op::Call { tail, .. } | Op::Transact { tail, .. } => Some(&tail.insc_id),
            Op::Deposit { insc_id, .. } | Op::Withdraw { insc_id, .. } => Some(insc_id),
            _ => None,
        }
    }
}

#[derive(Clone, Debug, PartialEq, Eq, Serialize)]
pub enum Status { Ok, Rejected(String), Panic(String), Hang }
impl Status {
    pub fn is_ok(&self) -> bool { matches!(self, Status::Ok) }
    pub fn is_rejected(&self) -> bool { matches!(self, Status::Rejected(_)) }
    pub fn is_fatal(&self) -> bool { matches!(self, Status::Panic(_) | Status::Hang) }
    /// short class used when statuses of two runs are compared
    pub fn class(&self) -> String {
        match self {
            Status::Ok => "Ok".into(),
            Status::Rejected(m) => format!("Rejected({})", err_class(m)),
            Status::Panic(_) => "Panic".into(),
            Status::Hang => "Hang".into(),
        }
    }
}

fn ser_events<S: Serializer>(evs: &Vec<Ev>, s: S) -> Result<S::Ok, S::Error> {
    let v: Vec<String> = evs.iter().map(ev_string).collect();
    v.serialize(s)
}

pub fn ev_string(e: &Ev) -> String {
    let hx = |b: &Vec<u8>| if b.len() > 40 { format!("{}..({}B)", hex::encode(&b[..40]), b.len()) } else { hex::encode(b) };
    match e {
        Ev::VSet { table, stamp, key, val } => format!("VSet {} @{} {} {}", table, stamp, hx(key), if val.is_some() { "set" } else { "unset" }),
        Ev::VPut { table, hist, key, val } => format!("VPut {}{} {} {}", table, if *hist { "/hist" } else { "" }, hx(key), if val.is_some() { "put" } else { "del" }),
        Ev::VCommit { table, block } => format!("VCommit {} {}", table, block),
        Ev::VReorg { table, block } => format!("VReorg {} {}", table, block),
        Ev::VClear { table } => format!("VClear {}", table),
        Ev::BSet { table, key, .. } => format!("BSet {} {}", table, key),
        Ev::BPut { table, key, val } => format!("BPut {} {} {}", table, key, if val.is_some() { "put" } else { "del" }),
        Ev::BFlush { table } => format!("BFlush {}", table),
        Ev::BCommit { table } => format!("BCommit {}", table),
        Ev::BReorg { table, block } => format!("BReorg {} {}", table, block),
        Ev::BClear { table } => format!("BClear {}", table),
        Ev::CPut { table, key, val } => format!("CPut {} {}={}", table, key, val),
        Ev::CFlush { table } => format!("CFlush {}", table),
        Ev::Lock { .. } => "Lock".to_string(),
        Ev::Note(s) => format!("Note {}", s),
    }
}

/// A store mutation: something that changes what later reads can see or what is on disk.
pub fn is_mutation(e: &Ev) -> bool {
    matches!(e, Ev::VSet { .. } | Ev::BSet { .. } | Ev::CPut { .. } | Ev::VPut { .. } | Ev::BPut { .. })
}

#[derive(Clone, Debug, Serialize)]
pub struct OpOut {
    pub status: Status,
    pub result: Value,
    #[serde(serialize_with = "ser_events")]
    pub events: Vec<Ev>,
}

fn opt_hx(h: &Option<Hx>) -> Value { h.as_ref().map(|x| json!(x.hex0x())).unwrap_or(Value::Null) }

fn enc_params(bytes: &Hx, enc: Enc) -> (Value, Value) {
    let b64 = |b: &Hx| { let mut v = vec![0u8]; v.extend_from_slice(&b.0); BASE64_STANDARD_NO_PAD.encode(v) };
    match enc {
        Enc::Hex => (json!(bytes.hex0x()), Value::Null),
        Enc::Base64 => (Value::Null, json!(b64(bytes))),
        Enc::Base64Packed => {
            let s = vh::Base64Bytes::from_bytes(Bytes::from(bytes.0.clone())).map(|b| b.to_string()).unwrap_or_else(|_| b64(bytes));
            (Value::Null, json!(s))
        }
        Enc::Both => (json!(bytes.hex0x()), json!(b64(bytes))),
        Enc::BothBadHex => (json!("0xzz"), json!(b64(bytes))),
        // 0x07 is no compression method
        Enc::BothBadBase64 => (json!(bytes.hex0x()), json!("BwECAw")),
        Enc::Neither => (Value::Null, Value::Null),
        Enc::BadHex => (json!("0xzz-not-hex"), Value::Null),
        Enc::BadBase64 => (Value::Null, json!("!!*not*base64*!!")),
        Enc::EmptyBase64 => (Value::Null, json!("")),
    }
}

fn idx_abs(i: Idx) -> u64 { match i { Idx::Abs(x) => x, Idx::Auto => 0, Idx::Off(d) => d.max(0) as u64 } }

fn call_json(c: &CallSpec) -> Value { json!({"from": opt_hx(&c.from), "to": opt_hx(&c.to), "data": c.data.hex0x()}) }

/// Method name and positional parameters of the JSON-RPC request an op stands for.
pub fn request_of(op: &Op) -> Option<(&'static str, Value)> {
    Some(match op {
        Op::Initialise { hash, ts, height } => ("brc20_initialise", json!([hash.hex0x(), ts, height])),
        Op::Mine { n, ts } => ("brc20_mine", json!([n, ts])),
        Op::Deploy { from_pkscript, data, enc, tail } => {
            let (d, b) = enc_params(data, *enc);
            ("brc20_deploy", json!([from_pkscript, d, b, tail.ts, tail.hash.hex0x(), idx_abs(tail.tx_idx), tail.insc_id, tail.byte_len, tail.op_return_tx_id.hex0x()]))
        }
        Op::Call { from_pkscript, to, data, enc, tail } => {
            let (d, b) = enc_params(data, *enc);
            let (a, i) = match to {
                To::ByAddress(a) => (json!(a.hex0x()), Value::Null),
                To::ByInscription(i) => (Value::Null, json!(i)),
                To::None => (Value::Null, Value::Null),
            };
            ("brc20_call", json!([from_pkscript, a, i, d, b, tail.ts, tail.hash.hex0x(), idx_abs(tail.tx_idx), tail.insc_id, tail.byte_len, tail.op_return_tx_id.hex0x()]))
        }
        Op::Transact { raw_tx, enc, tail } => {
            let (d, b) = enc_params(raw_tx, *enc);
            ("brc20_transact", json!([d, b, tail.ts, tail.hash.hex0x(), idx_abs(tail.tx_idx), tail.insc_id, tail.byte_len, tail.op_return_tx_id.hex0x()]))
        }
        Op::Deposit { to_pkscript, ticker, amount, ts, hash, tx_idx, insc_id } =>
            ("brc20_deposit", json!([to_pkscript, ticker, amount, ts, hash.hex0x(), idx_abs(*tx_idx), insc_id])),
        Op::Withdraw { from_pkscript, ticker, amount, ts, hash, tx_idx, insc_id } =>
            ("brc20_withdraw", json!([from_pkscript, ticker, amount, ts, hash.hex0x(), idx_abs(*tx_idx), insc_id])),
        Op::Finalise { ts, hash, tx_count } => ("brc20_finaliseBlock", json!([ts, hash.hex0x(), idx_abs(*tx_count)])),
        Op::Commit => ("brc20_commitToDatabase", json!([])),
        Op::Clear => ("brc20_clearCaches", json!([])),
        Op::Reorg(n) => ("brc20_reorg", json!([n])),
        Op::Reopen => return None,
        Op::EthCall { from, to, data, block } =>
            ("eth_call", json!([{"from": opt_hx(from), "to": opt_hx(to), "data": data.hex0x()}, block])),
        Op::EthCallMany { calls, block, op_return_tx_ids } => {
            let pd = match op_return_tx_ids {
                Some(ids) => json!({"opReturnTxIds": ids.iter().map(|h| h.hex0x()).collect::<Vec<_>>(), "bitcoinTxHexes": {}}),
                None => Value::Null,
            };
            ("eth_callMany", json!([calls.iter().map(call_json).collect::<Vec<_>>(), block, pd]))
        }
        Op::EstimateGas { from, to, data, block } =>
            ("eth_estimateGas", json!([{"from": opt_hx(from), "to": opt_hx(to), "data": data.hex0x()}, block])),
        Op::EstimateGasMany { calls, block } =>
            ("eth_estimateGasMany", json!([calls.iter().map(call_json).collect::<Vec<_>>(), block, Value::Null])),
        Op::Balance { pkscript, ticker } => ("brc20_balance", json!([pkscript, ticker])),
        Op::GetLogs { from, to, address, topics } => {
            let mut f = serde_json::Map::new();
            if let Some(x) = from { f.insert("fromBlock".into(), json!(x)); }
            if let Some(x) = to { f.insert("toBlock".into(), json!(x)); }
            if let Some(a) = address { f.insert("address".into(), json!(a.hex0x())); }
            if let Some(t) = topics { f.insert("topics".into(), t.clone()); }
            ("eth_getLogs", json!([Value::Object(f)]))
        }
        Op::Query { method, params } => return Some((leak_method(method), params.clone())),
    })
}

fn leak_method(m: &str) -> &'static str {
    // method names form a small fixed set; interning keeps `request_of` allocation-free for callers
    static NAMES: Mutex<BTreeMap<String, &'static str>> = Mutex::new(BTreeMap::new());
    let mut g = NAMES.lock().unwrap_or_else(|e| e.into_inner());
    if let Some(s) = g.get(m) { return s; }
    let s: &'static str = Box::leak(m.to_string().into_boxed_str());
    g.insert(m.to_string(), s);
    s
}

/// Performs one op on the instance. `Idx` fields must already be `Abs` (see `Run::step`).
pub fn apply(inst: &mut Inst, op: &Op) -> OpOut {
    if let Op::Reopen = op {
        return match inst.reopen_in_place() {
            Ok(()) => OpOut { status: Status::Ok, result: Value::Null, events: vec![] },
            Err(e) => OpOut { status: Status::Panic(format!("reopen failed: {}", e)), result: Value::Null, events: vec![] },
        };
    }
    let (method, params) = request_of(op).expect("request");
    let r = inst.rpc(method, params);
    let events = inst.events();
    match r {
        Ok(v) => OpOut { status: Status::Ok, result: v, events },
        Err(RpcFail::Err { message, .. }) => OpOut { status: Status::Rejected(message), result: Value::Null, events },
        Err(RpcFail::Panic(m)) => OpOut { status: Status::Panic(m), result: Value::Null, events },
        Err(RpcFail::Hang) => OpOut { status: Status::Hang, result: Value::Null, events },
    }
}

// ------------------------------------------------------------------------------------------
// a tiny EVM assembler and the test contracts
// ------------------------------------------------------------------------------------------

pub mod opc {
    pub const STOP: u8 = 0x00; pub const ADD: u8 = 0x01; pub const SUB: u8 = 0x03; pub const EQ: u8 = 0x14;
    pub const ISZERO: u8 = 0x15; pub const SHL: u8 = 0x1b; pub const SHR: u8 = 0x1c; pub const BALANCE: u8 = 0x31;
    pub const ORIGIN: u8 = 0x32; pub const CALLER: u8 = 0x33; pub const CALLDATALOAD: u8 = 0x35;
    pub const CALLDATASIZE: u8 = 0x36; pub const CALLDATACOPY: u8 = 0x37; pub const CODECOPY: u8 = 0x39;
    pub const GASPRICE: u8 = 0x3a; pub const RETURNDATASIZE: u8 = 0x3d; pub const RETURNDATACOPY: u8 = 0x3e;
    pub const BLOCKHASH: u8 = 0x40; pub const COINBASE: u8 = 0x41; pub const TIMESTAMP: u8 = 0x42;
    pub const NUMBER: u8 = 0x43; pub const PREVRANDAO: u8 = 0x44; pub const CHAINID: u8 = 0x46;
    pub const BASEFEE: u8 = 0x48; pub const POP: u8 = 0x50; pub const MLOAD: u8 = 0x51; pub const MSTORE: u8 = 0x52;
    pub const SLOAD: u8 = 0x54; pub const SSTORE: u8 = 0x55; pub const JUMP: u8 = 0x56; pub const JUMPI: u8 = 0x57;
    pub const GAS: u8 = 0x5a; pub const JUMPDEST: u8 = 0x5b; pub const PUSH0: u8 = 0x5f; pub const DUP1: u8 = 0x80;
    pub const DUP2: u8 = 0x81; pub const DUP3: u8 = 0x82; pub const LOG0: u8 = 0xa0; pub const CREATE: u8 = 0xf0;
    pub const CALL: u8 = 0xf1; pub const RETURN: u8 = 0xf3; pub const STATICCALL: u8 = 0xfa; pub const REVERT: u8 = 0xfd;
    pub const INVALID: u8 = 0xfe; pub const SELFDESTRUCT: u8 = 0xff;
}

/// push / ops / labels. Label references are always PUSH2.
#[derive(Default)]
pub struct Asm { code: Vec<u8>, labels: HashMap<String, usize>, fixups: Vec<(usize, String)> }
impl Asm {
    pub fn new() -> Asm { Asm::default() }
    pub fn op(&mut self, o: u8) -> &mut Asm { self.code.push(o); self }
    pub fn ops(&mut self, os: &[u8]) -> &mut Asm { self.code.extend_from_slice(os); self }
    /// shortest PUSH of a big-endian byte string (PUSH0 for zero)
    pub fn push(&mut self, bytes: &[u8]) -> &mut Asm {
        let b: Vec<u8> = bytes.iter().copied().skip_while(|x| *x == 0).collect();
        assert!(b.len() <= 32);
        if b.is_empty() { self.code.push(opc::PUSH0); } else { self.code.push(0x5f + b.len() as u8); self.code.extend_from_slice(&b); }
        self
    }
    /// PUSHn of exactly these bytes (keeps leading zeros)
    pub fn push_exact(&mut self, bytes: &[u8]) -> &mut Asm {
        assert!(!bytes.is_empty() && bytes.len() <= 32);
        self.code.push(0x5f + bytes.len() as u8);
        self.code.extend_from_slice(bytes);
        self
    }
    pub fn pushn(&mut self, x: u64) -> &mut Asm { self.push(&x.to_be_bytes()) }
    pub fn label(&mut self, name: &str) -> &mut Asm {
        self.labels.insert(name.to_string(), self.code.len());
        self.code.push(opc::JUMPDEST);
        self
    }
    pub fn push_label(&mut self, name: &str) -> &mut Asm {
        self.code.push(0x61);
        self.fixups.push((self.code.len(), name.to_string()));
        self.code.extend_from_slice(&[0, 0]);
        self
    }
    pub fn jump(&mut self, name: &str) -> &mut Asm { self.push_label(name); self.op(opc::JUMP) }
    pub fn jumpi(&mut self, name: &str) -> &mut Asm { self.push_label(name); self.op(opc::JUMPI) }
    pub fn finish(mut self) -> Vec<u8> {
        for (pos, name) in &self.fixups {
            let target = *self.labels.get(name).unwrap_or_else(|| panic!("undefined label {}", name)) as u16;
            self.code[*pos..*pos + 2].copy_from_slice(&target.to_be_bytes());
        }
        self.code
    }
}

pub const SLOT_CHILD: u64 = 0xC0;
pub const SLOT_CTX: u64 = 0x100;
/// number of context slots written by action 0x08 (the last one only if the precompile answered)
pub const CTX_SLOTS: u64 = 12;
pub const OP_RETURN_PRECOMPILE: u64 = 0xfa;

/// runtime of the child created by action 0x05: returns the word 42
pub fn child_runtime() -> Vec<u8> {
    let mut a = Asm::new();
    a.pushn(0x2a).op(opc::PUSH0).op(opc::MSTORE).pushn(32).op(opc::PUSH0).op(opc::RETURN);
    a.finish()
}
pub fn child_init() -> Vec<u8> {
    let rt = child_runtime();
    assert!(rt.len() <= 16);
    let mut a = Asm::new();
    // mstore(0, runtime right-aligned); return(32-len, len)
    a.push_exact(&rt).op(opc::PUSH0).op(opc::MSTORE).pushn(rt.len() as u64).pushn(32 - rt.len() as u64).op(opc::RETURN);
    a.finish()
}

/// The "multi-tool": first calldata byte selects the action (see module doc of the task).
pub fn multitool_runtime() -> Vec<u8> {
    use opc::*;
    let mut a = Asm::new();
    // selector = calldata[0]
    a.op(PUSH0).op(CALLDATALOAD).pushn(0xf8).op(SHR);
    for sel in 1..=9u64 {
        a.op(DUP1).pushn(sel).op(EQ).jumpi(&format!("a{}", sel));
    }
    a.op(STOP);
    // 0x01 k v: sstore(k, v)
    a.label("a1").pushn(33).op(CALLDATALOAD).pushn(1).op(CALLDATALOAD).op(SSTORE).op(STOP);
    // 0x02 n t1..tn data: LOGn
    a.label("a2").pushn(1).op(CALLDATALOAD).pushn(0xf8).op(SHR);
    for n in 0..=4u64 { a.op(DUP1).pushn(n).op(EQ).jumpi(&format!("log{}", n)); }
    a.op(STOP);
    for n in 0..=4u64 {
        a.label(&format!("log{}", n));
        a.pushn(2 + 32 * n).op(CALLDATALOAD).op(PUSH0).op(MSTORE);
        for i in (1..=n).rev() { a.pushn(2 + 32 * (i - 1)).op(CALLDATALOAD); }
        a.pushn(32).op(PUSH0).op(LOG0 + n as u8).op(STOP);
    }
    // 0x03: revert with a 32-byte message
    let mut msg = [0u8; 32];
    msg[..17].copy_from_slice(b"multitool: revert");
    a.label("a3").push_exact(&msg).op(PUSH0).op(MSTORE).pushn(32).op(PUSH0).op(REVERT);
    // 0x04: loop until out of gas (about 116 gas per round)
    a.label("a4").op(PUSH0).op(BALANCE).op(POP).jump("a4");
    // 0x05: create the child, remember its address
    let ci = child_init();
    assert!(ci.len() <= 32);
    let mut word = [0u8; 32];
    word[..ci.len()].copy_from_slice(&ci);
    a.label("a5").push_exact(&word).op(PUSH0).op(MSTORE).pushn(ci.len() as u64).op(PUSH0).op(PUSH0).op(CREATE)
        .pushn(SLOT_CHILD).op(SSTORE).op(STOP);
    // 0x06 k: return sload(k)
    a.label("a6").pushn(1).op(CALLDATALOAD).op(SLOAD).op(PUSH0).op(MSTORE).pushn(32).op(PUSH0).op(RETURN);
    // 0x07: selfdestruct to the caller
    a.label("a7").op(CALLER).op(SELFDESTRUCT);
    // 0x08: record the execution context
    a.label("a8");
    let simple = [NUMBER, TIMESTAMP, PREVRANDAO, CHAINID, BASEFEE, GASPRICE, COINBASE, CALLER, ORIGIN];
    for (i, o) in simple.iter().enumerate() { a.op(*o).pushn(SLOT_CTX + i as u64).op(SSTORE); }
    a.pushn(1).op(NUMBER).op(SUB).op(BLOCKHASH).pushn(SLOT_CTX + 9).op(SSTORE);
    a.pushn(2).op(NUMBER).op(SUB).op(BLOCKHASH).pushn(SLOT_CTX + 10).op(SSTORE);
    let sel = &keccak256(b"getTxId()")[..4];
    let mut w = [0u8; 32];
    w[..4].copy_from_slice(sel);
    a.push_exact(&w).op(PUSH0).op(MSTORE);
    // staticcall(gas, 0xfa, 0, 4, 32, 32)
    a.pushn(32).pushn(32).pushn(4).op(PUSH0).pushn(OP_RETURN_PRECOMPILE).op(GAS).op(STATICCALL);
    a.jumpi("ctxok").op(STOP);
    a.label("ctxok").pushn(32).op(MLOAD).pushn(SLOT_CTX + 11).op(SSTORE).op(STOP);
    // 0x09 addr data: call(addr, data), bubble the result
    a.label("a9");
    a.pushn(21).op(CALLDATASIZE).op(SUB); // [size]
    a.op(DUP1).pushn(21).op(PUSH0).op(CALLDATACOPY); // [size]
    a.op(PUSH0).op(PUSH0).op(DUP3).op(PUSH0).op(PUSH0); // retSize retOff argsSize argsOff value
    a.pushn(1).op(CALLDATALOAD).pushn(96).op(SHR).op(GAS).op(CALL); // [size, ok]
    a.op(RETURNDATASIZE).op(PUSH0).op(PUSH0).op(RETURNDATACOPY);
    a.op(RETURNDATASIZE).op(PUSH0).op(DUP3).jumpi("bubok").op(REVERT);
    a.label("bubok").op(RETURN);
    a.finish()
}

/// init code returning `runtime`
pub fn init_returning(runtime: &[u8]) -> Vec<u8> {
    use opc::*;
    let mut a = Asm::new();
    // header is 13 bytes: PUSH2 len, DUP1, PUSH2 off, PUSH0, CODECOPY, PUSH0, RETURN
    let header_len = 3 + 1 + 3 + 1 + 1 + 1 + 1;
    a.push_exact(&(runtime.len() as u16).to_be_bytes()).op(DUP1).push_exact(&(header_len as u16).to_be_bytes())
        .op(PUSH0).op(CODECOPY).op(PUSH0).op(RETURN);
    let mut c = a.finish();
    assert_eq!(c.len(), header_len);
    c.extend_from_slice(runtime);
    c
}
pub fn multitool_init() -> Vec<u8> { init_returning(&multitool_runtime()) }

/// Gas-shape contracts (what an estimate must get right beyond the final charge):
/// refunder: stores calldata word 0 into slots 0..32 (clearing non-zero slots earns refunds, so the
/// gas needed up front exceeds the final gasUsed);
/// burner: a loop of about two million gas; forwarder: CALLs the burner with all remaining gas and
/// reverts if it failed (the 63/64 rule: the caller must hold more than the callee burns).
pub fn refunder_runtime() -> Vec<u8> {
    let mut a = Asm::new();
    a.op(opc::PUSH0).op(opc::CALLDATALOAD).op(opc::PUSH0);
    a.label("loop").op(opc::DUP1).pushn(32).op(opc::EQ).jumpi("end");
    a.op(opc::DUP2).op(opc::DUP2).op(opc::SSTORE).pushn(1).op(opc::ADD).jump("loop");
    a.label("end").op(opc::STOP);
    a.finish()
}
pub fn burner_runtime() -> Vec<u8> {
    let mut a = Asm::new();
    a.pushn(77_000);
    a.label("loop").pushn(1).op(0x90 /* SWAP1 */).op(opc::SUB).op(opc::DUP1).jumpi("loop");
    a.op(opc::STOP);
    a.finish()
}
pub fn forwarder_runtime(burner: Address) -> Vec<u8> {
    let mut a = Asm::new();
    a.op(opc::PUSH0).op(opc::PUSH0).op(opc::PUSH0).op(opc::PUSH0).op(opc::PUSH0).push_exact(burner.as_slice()).op(opc::GAS).op(opc::CALL);
    a.jumpi("ok").op(opc::PUSH0).op(opc::PUSH0).op(opc::REVERT);
    a.label("ok").op(opc::STOP);
    a.finish()
}
/// init code that reverts
pub fn init_reverting() -> Vec<u8> { vec![opc::PUSH0, opc::PUSH0, opc::REVERT] }
/// bytes that are not a program (first opcode is undefined)
pub fn init_garbage() -> Vec<u8> { vec![0xef, 0x00, 0xfe, 0x0c, 0xde, 0xad, 0xbe, 0xef, 0x21, 0xa5] }

pub mod cd {
    //! calldata of each multi-tool action
    use super::*;
    pub fn sstore(k: U256, v: U256) -> Vec<u8> { let mut d = vec![1u8]; d.extend_from_slice(&k.to_be_bytes::<32>()); d.extend_from_slice(&v.to_be_bytes::<32>()); d }
    pub fn log(topics: &[U256], data: U256) -> Vec<u8> {
        assert!(topics.len() <= 4);
        let mut d = vec![2u8, topics.len() as u8];
        for t in topics { d.extend_from_slice(&t.to_be_bytes::<32>()); }
        d.extend_from_slice(&data.to_be_bytes::<32>());
        d
    }
    pub fn revert() -> Vec<u8> { vec![3] }
    pub fn spin() -> Vec<u8> { vec![4] }
    pub fn create() -> Vec<u8> { vec![5] }
    pub fn sload(k: U256) -> Vec<u8> { let mut d = vec![6u8]; d.extend_from_slice(&k.to_be_bytes::<32>()); d }
    pub fn selfdestruct() -> Vec<u8> { vec![7] }
    pub fn context() -> Vec<u8> { vec![8] }
    pub fn call(target: Address, inner: &[u8]) -> Vec<u8> { let mut d = vec![9u8]; d.extend_from_slice(target.as_slice()); d.extend_from_slice(inner); d }
}

sol! {
    function transfer(bytes ticker, address to, uint256 value) returns (bool);
    function approve(bytes ticker, address spender, uint256 value) returns (bool);
    function mint(bytes ticker, address to, uint256 value) returns (bool);
}
/// calldata of `BRC20_Controller.transfer(ticker, to, value)`
pub fn controller_transfer(ticker: &str, to: Address, value: U256) -> Vec<u8> {
    transferCall::new((Bytes::from(ticker.to_lowercase().into_bytes()), to, value)).abi_encode()
}
/// calldata of `BRC20_Controller.mint` (only the indexer address may call it: must fail for anyone else)
pub fn controller_mint(ticker: &str, to: Address, value: U256) -> Vec<u8> {
    mintCall::new((Bytes::from(ticker.to_lowercase().into_bytes()), to, value)).abi_encode()
}

pub fn pkscript_address(pkscript: &str) -> Address {
    let b = hex::decode(pkscript).unwrap_or_default();
    Address::from_slice(&keccak256(b)[12..32])
}

// ------------------------------------------------------------------------------------------
// signed transactions
// ------------------------------------------------------------------------------------------

pub const SIGNERS: usize = 3;
pub fn signer(i: usize) -> PrivateKeySigner {
    let mut k = [0u8; 32];
    k[0] = 0x42;
    k[31] = 1 + (i % SIGNERS) as u8;
    k[15] = 0x99;
    PrivateKeySigner::from_bytes(&B256::from(k)).expect("fixed key")
}
pub fn signer_address(i: usize) -> Address { signer(i).address() }

/// RLP ("network") encoding of a signed legacy transaction; `to == None` is a creation.
pub fn sign_legacy(signer_index: usize, nonce: u64, to: Option<Address>, data: Vec<u8>, chain_id: u64) -> Vec<u8> {
    let t = TxLegacy {
        chain_id: Some(chain_id),
        nonce,
        gas_price: 0,
        gas_limit: 0,
        to: match to { Some(a) => TxKind::Call(a), None => TxKind::Create },
        value: U256::ZERO,
        input: Bytes::from(data),
    };
    let sig = signer(signer_index).sign_hash_sync(&t.signature_hash()).expect("sign");
    let mut out = Vec::new();
    t.rlp_encode_signed(&sig, &mut out);
    out
}

// ------------------------------------------------------------------------------------------
// canonicalisation
// ------------------------------------------------------------------------------------------

/// Short class of an error message: lower case, digits and hex runs replaced, truncated.
pub fn err_class(msg: &str) -> String {
    let mut out = String::new();
    let mut chars = msg.chars().peekable();
    let mut prev_word = false;
    while let Some(c) = chars.next() {
        if c == '0' && chars.peek() == Some(&'x') && !prev_word {
            chars.next();
            while chars.peek().map(|x| x.is_ascii_hexdigit()).unwrap_or(false) { chars.next(); }
            out.push('#');
        } else if c.is_ascii_digit() && !prev_word {
            while chars.peek().map(|x| x.is_ascii_digit()).unwrap_or(false) { chars.next(); }
            out.push('#');
        } else {
            out.push(c.to_ascii_lowercase());
        }
        prev_word = c.is_ascii_alphanumeric() || c == '_';
        if out.len() >= 72 { break; }
    }
    out
}

/// Sorted object keys, `mineTimestamp` zeroed. Arrays keep their order.
pub fn canon(v: &Value) -> Value {
    match v {
        Value::Object(m) => {
            let sorted: BTreeMap<&String, &Value> = m.iter().collect();
            let mut out = serde_json::Map::new();
            for (k, x) in sorted {
                if k == "mineTimestamp" { out.insert(k.clone(), json!("0x0")); } else { out.insert(k.clone(), canon(x)); }
            }
            Value::Object(out)
        }
        Value::Array(a) => Value::Array(a.iter().map(canon).collect()),
        x => x.clone(),
    }
}

fn canon_result(r: Result<Value, RpcFail>) -> Value {
    match r {
        Ok(v) => canon(&v),
        Err(RpcFail::Err { message, .. }) => json!({"error": err_class(&message)}),
        Err(RpcFail::Panic(m)) => json!({"PANIC": err_class(&m)}),
        Err(RpcFail::Hang) => json!({"HANG": true}),
    }
}

// ------------------------------------------------------------------------------------------
// tracking the engine state from its responses
// ------------------------------------------------------------------------------------------

/// hash the engine generates for a block whose hash was given as zero
pub fn generated_hash(height: u64) -> Hx { Hx::n32(height + 1) }
pub fn resolve_hash(height: u64, h: &Hx) -> Hx { if h.is_zero() { generated_hash(height) } else { h.clone() } }

pub const W: u64 = 10;

#[derive(Clone, Debug, Default, Serialize)]
pub struct BlockRec {
    pub height: u64,
    pub hash: Hx,
    pub ts: u64,
    /// indexes (into the run's log) of the accepted calls that built this block, in order
    pub ops: Vec<usize>,
    /// receipts returned by those calls, in the order returned, with the inscription id of the call
    pub receipts: Vec<(String, Value)>,
    /// how the block came to be: "tx" (transactions + finalise), "mine", "init"
    pub how: &'static str,
}

/// What the harness believes about the instance, derived only from statuses and results.
#[derive(Clone, Debug, Default, Serialize)]
pub struct Tracker {
    pub blocks: Vec<BlockRec>,
    pub open: BlockRec,
    /// number of leading blocks that are durable
    pub committed_len: usize,
    /// accepted calls of the open block that are durable (parked transactions committed mid-way)
    pub committed_open_ops: Vec<usize>,
    /// highest block ever finalised on this database
    pub max_ever: Option<u64>,
    /// a signed transaction was parked in the pending pool while the open block is being built
    /// (the engine then refuses commit / reorg / mine until the block is finalised or cleared)
    pub open_parked: bool,
    /// a call was answered Panic/Hang
    pub fatal: bool,
    /// a call was answered with an error although it changed the store: from here on the answers
    /// no longer describe the engine's state (e.g. a block may be open that no receipt told of)
    pub desynced: bool,
}

fn is_rpc_status_error(m: &str) -> bool { m.starts_with("Bitcoin RPC status check failed") }

impl Tracker {
    pub fn height(&self) -> Option<u64> { if self.blocks.is_empty() { None } else { Some(self.blocks.len() as u64 - 1) } }
    pub fn next_height(&self) -> u64 { self.blocks.len() as u64 }
    /// transactions executed in the open block so far (what the engine calls waiting_tx_count)
    pub fn waiting(&self) -> u64 { self.open.receipts.len() as u64 }
    pub fn at_boundary(&self) -> bool { self.waiting() == 0 && !self.open_parked }
    pub fn hash_exists(&self, h: &Hx) -> bool { self.blocks.iter().any(|b| &b.hash == h) }

    fn push_block(&mut self, mut b: BlockRec) {
        b.height = self.blocks.len() as u64;
        self.max_ever = Some(self.max_ever.map_or(b.height, |m| m.max(b.height)));
        self.blocks.push(b);
    }

    /// The op counts as having taken effect (for bookkeeping) given how it was answered.
    pub fn effective(op: &Op, out: &OpOut) -> bool {
        match (&out.status, op) {
            (Status::Ok, _) => true,
            // genesis is created before the Bitcoin RPC probe; the probe's failure is reported as an error
            (Status::Rejected(m), Op::Initialise { .. }) => is_rpc_status_error(m),
            _ => false,
        }
    }

    pub fn on(&mut self, idx: usize, op: &Op, out: &OpOut) {
        if out.status.is_fatal() { self.fatal = true; return; }
        if !Tracker::effective(op, out) {
            if out.status.is_rejected() && out.events.iter().any(is_mutation) { self.desynced = true; }
            return;
        }
        match op {
            Op::Initialise { hash, ts, height } => {
                // genesis is created when the named height is the next one (block 0 on an empty
                // database, or later on a chain started by brc20_mine); otherwise the call only checks
                if self.blocks.len() as u64 == *height {
                    let h = resolve_hash(*height, hash);
                    self.open = BlockRec::default();
                    self.push_block(BlockRec { height: *height, hash: h, ts: *ts, ops: vec![idx], receipts: vec![], how: "init" });
                }
            }
            Op::Mine { n, ts } => {
                for _ in 0..*n {
                    let h = generated_hash(self.next_height());
                    let carried = std::mem::take(&mut self.open);
                    let mut ops = carried.ops;
                    ops.push(idx);
                    self.push_block(BlockRec { height: 0, hash: h, ts: *ts, ops, receipts: vec![], how: "mine" });
                }
            }
            Op::Deploy { .. } | Op::Call { .. } | Op::Deposit { .. } | Op::Withdraw { .. } => {
                self.open.ops.push(idx);
                if out.result.is_object() {
                    self.open.receipts.push((op.insc_id().unwrap_or("").to_string(), out.result.clone()));
                }
            }
            Op::Transact { .. } => {
                self.open.ops.push(idx);
                if out.result.as_array().map_or(false, |rs| rs.is_empty()) && out.events.iter().any(is_mutation) {
                    self.open_parked = true;
                }
                if let Some(rs) = out.result.as_array() {
                    for r in rs {
                        // a drained transaction carries the inscription id it was parked with; ask the receipt's tx
                        self.open.receipts.push((String::new(), r.clone()));
                    }
                    if let (Some(first), Some(id)) = (self.open.receipts.len().checked_sub(rs.len()), op.insc_id()) {
                        if !rs.is_empty() { self.open.receipts[first].0 = id.to_string(); }
                    }
                }
            }
            Op::Finalise { ts, hash, .. } => {
                self.open_parked = false;
                let mut b = std::mem::take(&mut self.open);
                b.hash = resolve_hash(self.next_height(), hash);
                b.ts = *ts;
                b.ops.push(idx);
                b.how = "tx";
                self.push_block(b);
            }
            Op::Commit => {
                self.committed_len = self.blocks.len();
                self.committed_open_ops = self.open.ops.clone();
            }
            Op::Clear | Op::Reopen => {
                self.open_parked = false;
                self.blocks.truncate(self.committed_len);
                self.open = BlockRec { ops: self.committed_open_ops.clone(), ..BlockRec::default() };
            }
            Op::Reorg(n) => {
                if let Some(h) = self.height() {
                    if *n < h {
                        self.blocks.truncate(*n as usize + 1);
                        self.committed_len = self.blocks.len();
                        self.committed_open_ops.clear();
                        self.open = BlockRec::default();
                    }
                }
            }
            _ => {}
        }
    }

    /// What the block protocol says about this call in the current state: `Some(reason)` if it
    /// must be answered with an error. (`None` = no expectation.)
    pub fn must_reject(&self, op: &Op) -> Option<&'static str> {
        let waiting = self.waiting();
        let both_neither = |e: &Enc| match e { Enc::Both | Enc::BothBadHex | Enc::BothBadBase64 => Some("both encodings given"), Enc::Neither => Some("neither encoding given"), _ => None };
        match op {
            Op::Deploy { enc, .. } | Op::Call { enc, .. } => if let Some(r) = both_neither(enc) { return Some(r); },
            Op::Transact { enc, .. } => {
                if let Some(r) = both_neither(enc) { return Some(r); }
                if matches!(enc, Enc::BadHex | Enc::BadBase64 | Enc::EmptyBase64) { return Some("undecodable raw transaction"); }
                // a raw transaction may be parked or ignored before the block fields are looked at
                return None;
            }
            _ => {}
        }
        match op {
            Op::Deploy { .. } | Op::Call { .. } | Op::Deposit { .. } | Op::Withdraw { .. } | Op::Finalise { .. } => {
                let (ts, hash, idx) = op.block_fields().unwrap();
                let what_idx = if matches!(op, Op::Finalise { .. }) { "finalise with wrong transaction count" } else { "wrong tx_idx" };
                if let Idx::Abs(i) = idx { if i != waiting { return Some(what_idx); } }
                if let Idx::Off(d) = idx { if d != 0 { return Some(what_idx); } }
                let rh = resolve_hash(self.next_height(), hash);
                if waiting > 0 {
                    if ts != self.open.ts { return Some("timestamp differs from the open block"); }
                    if rh != self.open.hash { return Some("hash differs from the open block"); }
                }
                if self.hash_exists(&rh) { return Some("block hash already exists"); }
                None
            }
            Op::Commit => if waiting > 0 || self.open_parked { Some("commit while a block is open") } else { None },
            Op::Mine { .. } => if waiting > 0 || self.open_parked { Some("mine while a block is open") } else { None },
            Op::Reorg(n) => {
                if waiting > 0 || self.open_parked { return Some("reorg while a block is open"); }
                let h = self.height().unwrap_or(0);
                if *n > h { return Some("reorg above the current height"); }
                if h - *n > W { return Some("reorg deeper than the window below the height"); }
                if *n < h && self.max_ever.unwrap_or(0) > *n + W { return Some("reorg deeper than the window below the highest block ever finalised"); }
                None
            }
            Op::Initialise { hash, height, .. } => {
                if let Some(b) = self.blocks.get(*height as usize) {
                    if b.hash != resolve_hash(*height, hash) { return Some("genesis hash mismatch"); }
                }
                None
            }
            _ => None,
        }
    }

    /// The calls that built blocks `0..=upto` (all blocks and the open block's accepted calls if
    /// `None`), as a history for a fresh instance: no commits, clears, reorgs, rejected calls.
    pub fn effective_history(&self, log: &[(Op, OpOut)], upto: Option<u64>) -> Vec<Op> {
        let mut out: Vec<Op> = Vec::new();
        for b in &self.blocks {
            if let Some(u) = upto { if b.height > u { break; } }
            if b.how == "mine" {
                // one Mine(1) per mined block (so that the history for `upto` is a prefix of the one
                // for `upto + 1`); parked transactions submitted before the call travel with it
                let mine_idx = *b.ops.last().unwrap();
                for i in &b.ops[..b.ops.len() - 1] { out.push(log[*i].0.clone()); }
                if let Op::Mine { ts, .. } = &log[mine_idx].0 { out.push(Op::Mine { n: 1, ts: *ts }); }
            } else {
                for i in &b.ops { out.push(log[*i].0.clone()); }
            }
        }
        let include_open = match (upto, self.height()) { (None, _) => true, (Some(u), Some(h)) => u >= h, (Some(_), None) => true };
        if include_open { for i in &self.open.ops { out.push(log[*i].0.clone()); } }
        out
    }
}

// ------------------------------------------------------------------------------------------
// the universe of things to ask about
// ------------------------------------------------------------------------------------------

#[derive(Clone, Debug, Default, Serialize)]
pub struct Universe {
    pub addresses: BTreeSet<Hx>,
    /// addresses known to hold (or to have held) code
    pub contracts: BTreeSet<Hx>,
    /// (address, slot) pairs touched, from the store events, plus fixed slots of the test contracts
    pub storage: BTreeSet<(Hx, Hx)>,
    pub tx_hashes: BTreeSet<Hx>,
    pub insc_ids: BTreeSet<String>,
    pub block_hashes: BTreeSet<Hx>,
    pub max_height: u64,
    pub pkscripts: BTreeSet<String>,
    pub tickers: BTreeSet<String>,
    pub topics: BTreeSet<Hx>,
    pub max_txs_in_block: u64,
    /// a block is open: requests that execute code would wait 5 s each for it to be finalised; skip them
    pub block_open: bool,
}

impl Universe {
    pub fn new() -> Universe {
        let mut u = Universe::default();
        for a in [CONTROLLER, INDEXER, INVALID] { u.addresses.insert(Hx::from_hex(a)); }
        for i in 0..SIGNERS { u.addresses.insert(Hx::addr(signer_address(i))); }
        u.contracts.insert(Hx::from_hex(CONTROLLER));
        u.block_hashes.insert(generated_hash(0));
        u
    }
    pub fn merge(&mut self, o: &Universe) {
        self.addresses.extend(o.addresses.iter().cloned());
        self.contracts.extend(o.contracts.iter().cloned());
        self.storage.extend(o.storage.iter().cloned());
        self.tx_hashes.extend(o.tx_hashes.iter().cloned());
        self.insc_ids.extend(o.insc_ids.iter().cloned());
        self.block_hashes.extend(o.block_hashes.iter().cloned());
        self.pkscripts.extend(o.pkscripts.iter().cloned());
        self.tickers.extend(o.tickers.iter().cloned());
        self.topics.extend(o.topics.iter().cloned());
        self.max_height = self.max_height.max(o.max_height);
        self.max_txs_in_block = self.max_txs_in_block.max(o.max_txs_in_block);
    }
    fn add_contract(&mut self, a: Address) {
        let h = Hx::addr(a);
        self.addresses.insert(h.clone());
        for k in [0u64, 1, 2, SLOT_CHILD] { self.storage.insert((h.clone(), Hx::n32(k))); }
        for k in 0..CTX_SLOTS { self.storage.insert((h.clone(), Hx::n32(SLOT_CTX + k))); }
        // children it may create (contract nonces start at 1)
        for n in 1..=2u64 { self.addresses.insert(Hx::addr(a.create(n))); }
        self.contracts.insert(h);
    }
    fn absorb_receipt(&mut self, r: &Value) {
        let hx = |k: &str| r.get(k).and_then(|v| v.as_str()).map(Hx::from_hex);
        if let Some(h) = hx("transactionHash") { self.tx_hashes.insert(h); }
        if let Some(h) = hx("blockHash") { self.block_hashes.insert(h); }
        for k in ["from", "to"] { if let Some(a) = hx(k) { if a.0.len() == 20 { self.addresses.insert(a); } } }
        if let Some(a) = hx("contractAddress") { if a.0.len() == 20 { self.add_contract(a.to_address()); } }
        if let Some(logs) = r.get("logs").and_then(|l| l.as_array()) {
            for l in logs {
                if let Some(a) = l.get("address").and_then(|v| v.as_str()) { self.addresses.insert(Hx::from_hex(a)); }
                if let Some(ts) = l.get("topics").and_then(|t| t.as_array()) {
                    for t in ts { if let Some(s) = t.as_str() { self.topics.insert(Hx::from_hex(s)); } }
                }
            }
        }
        if let Some(i) = r.get("transactionIndex").and_then(|v| v.as_str()).and_then(|s| u64::from_str_radix(s.trim_start_matches("0x"), 16).ok()) {
            self.max_txs_in_block = self.max_txs_in_block.max(i + 1);
        }
    }
    /// Grow with whatever this call mentions or returned.
    pub fn absorb(&mut self, op: &Op, out: &OpOut, height_after: Option<u64>) {
        if let Some(h) = height_after { self.max_height = self.max_height.max(h); }
        if let Some((_, hash, _)) = op.block_fields() { if !hash.is_zero() { self.block_hashes.insert(hash.clone()); } }
        if let Some(i) = op.insc_id() { self.insc_ids.insert(i.to_string()); }
        match op {
            Op::Initialise { hash, .. } => { if !hash.is_zero() { self.block_hashes.insert(hash.clone()); } self.insc_ids.insert("BRC20_CONTROLLER_INIT".into()); }
            Op::Deploy { from_pkscript, .. } => { self.pkscripts.insert(from_pkscript.clone()); self.addresses.insert(Hx::addr(pkscript_address(from_pkscript))); }
            Op::Call { from_pkscript, to, .. } => {
                self.pkscripts.insert(from_pkscript.clone());
                self.addresses.insert(Hx::addr(pkscript_address(from_pkscript)));
                match to { To::ByAddress(a) => { if a.0.len() == 20 { self.addresses.insert(a.clone()); } } To::ByInscription(i) => { self.insc_ids.insert(i.clone()); } To::None => {} }
            }
            Op::Transact { raw_tx, .. } => { self.tx_hashes.insert(Hx::b256(keccak256(&raw_tx.0))); }
            Op::Deposit { to_pkscript: p, ticker, .. } | Op::Withdraw { from_pkscript: p, ticker, .. } => {
                self.pkscripts.insert(p.clone());
                self.tickers.insert(ticker.clone());
                self.addresses.insert(Hx::addr(pkscript_address(p)));
            }
            _ => {}
        }
        if let Some(h) = height_after { for x in 0..=h + 2 { self.block_hashes.insert(generated_hash(x)); } }
        if op.is_tx() {
            match &out.result {
                Value::Object(_) => self.absorb_receipt(&out.result),
                Value::Array(a) => for r in a { self.absorb_receipt(r); },
                _ => {}
            }
        }
        for e in &out.events {
            if let Ev::VSet { table, key, .. } = e {
                if table == "account_memory" && key.len() == 64 {
                    self.storage.insert((Hx(key[..20].to_vec()), Hx(key[32..].to_vec())));
                    self.addresses.insert(Hx(key[..20].to_vec()));
                } else if table == "account" && key.len() == 20 {
                    self.addresses.insert(Hx(key.clone()));
                } else if table == "contract_address_to_inscription_id" && key.len() == 20 {
                    self.addresses.insert(Hx(key.clone()));
                }
            }
        }
    }
}

fn hexn(n: u64) -> String { format!("0x{:x}", n) }

/// The full observation: the answer (or error class) of every read method over the universe.
pub fn observe(inst: &mut Inst, u: &Universe) -> BTreeMap<String, Value> {
    let mut o: BTreeMap<String, Value> = BTreeMap::new();
    let mut ask = |inst: &mut Inst, key: String, method: &str, params: Value| {
        let r = inst.rpc(method, params);
        o.insert(key, canon_result(r));
    };
    ask(inst, "eth_blockNumber".into(), "eth_blockNumber", json!([]));
    ask(inst, "txpool_content".into(), "txpool_content", json!([]));
    for tag in ["latest", "pending", "earliest"] {
        ask(inst, format!("eth_getBlockByNumber({},false)", tag), "eth_getBlockByNumber", json!([tag, false]));
    }
    let max_i = u.max_txs_in_block + 1;
    for h in 0..=u.max_height + 2 {
        let hs = hexn(h);
        ask(inst, format!("eth_getBlockByNumber({},false)", h), "eth_getBlockByNumber", json!([hs, false]));
        ask(inst, format!("eth_getBlockByNumber({},true)", h), "eth_getBlockByNumber", json!([hs, true]));
        ask(inst, format!("eth_getBlockTransactionCountByNumber({})", h), "eth_getBlockTransactionCountByNumber", json!([hs]));
        ask(inst, format!("debug_getBlockTraceString({})", h), "debug_getBlockTraceString", json!([hs]));
        ask(inst, format!("debug_getBlockTraceHash({})", h), "debug_getBlockTraceHash", json!([hs]));
        ask(inst, format!("debug_getRawHeader({})", h), "debug_getRawHeader", json!([hs]));
        ask(inst, format!("debug_getRawBlock({})", h), "debug_getRawBlock", json!([hs]));
        ask(inst, format!("debug_getRawReceipts({})", h), "debug_getRawReceipts", json!([hs]));
        ask(inst, format!("eth_getLogs({}..{})", h, h), "eth_getLogs", json!([{"fromBlock": hs, "toBlock": hs}]));
        for i in 0..=max_i {
            ask(inst, format!("eth_getTransactionByBlockNumberAndIndex({},{})", h, i), "eth_getTransactionByBlockNumberAndIndex", json!([h, i]));
        }
    }
    // a few ranges and filters
    let top = u.max_height;
    let ranges = [(0u64, top.min(5)), (top.saturating_sub(5), top), (top.saturating_sub(2), top + 2), (top.saturating_sub(3), top.saturating_sub(1))];
    for (a, b) in ranges {
        ask(inst, format!("eth_getLogs({}..{})", a, b), "eth_getLogs", json!([{"fromBlock": hexn(a), "toBlock": hexn(b)}]));
    }
    ask(inst, "eth_getLogs(default)".into(), "eth_getLogs", json!([{}]));
    for c in u.contracts.iter().take(4) {
        let (a, b) = (top.saturating_sub(5), top);
        ask(inst, format!("eth_getLogs({}..{},addr={})", a, b, c.hex()), "eth_getLogs", json!([{"fromBlock": hexn(a), "toBlock": hexn(b), "address": c.hex0x()}]));
    }
    for t in u.topics.iter().take(3) {
        let (a, b) = (top.saturating_sub(5), top);
        ask(inst, format!("eth_getLogs({}..{},topic0={})", a, b, t.hex()), "eth_getLogs", json!([{"fromBlock": hexn(a), "toBlock": hexn(b), "topics": [t.hex0x()]}]));
        ask(inst, format!("eth_getLogs({}..{},topic1in={})", a, b, t.hex()), "eth_getLogs", json!([{"fromBlock": hexn(a), "toBlock": hexn(b), "topics": [Value::Null, [t.hex0x(), Hx::n32(77).hex0x()]]}]));
    }
    for bh in &u.block_hashes {
        let s = bh.hex0x();
        ask(inst, format!("eth_getBlockByHash({},false)", bh.hex()), "eth_getBlockByHash", json!([s, false]));
        ask(inst, format!("eth_getBlockByHash({},true)", bh.hex()), "eth_getBlockByHash", json!([s, true]));
        ask(inst, format!("eth_getBlockTransactionCountByHash({})", bh.hex()), "eth_getBlockTransactionCountByHash", json!([s]));
        ask(inst, format!("debug_getRawHeader({})", bh.hex()), "debug_getRawHeader", json!([s]));
        ask(inst, format!("debug_getRawBlock(q{})", bh.hex()), "debug_getRawBlock", json!([format!("\"{}\"", s)]));
        ask(inst, format!("debug_getRawReceipts(q{})", bh.hex()), "debug_getRawReceipts", json!([format!("\"{}\"", s)]));
        for i in 0..=max_i.min(2) {
            ask(inst, format!("eth_getTransactionByBlockHashAndIndex({},{})", bh.hex(), i), "eth_getTransactionByBlockHashAndIndex", json!([s, i]));
        }
    }
    for a in &u.addresses {
        let s = a.hex0x();
        ask(inst, format!("eth_getTransactionCount({})", a.hex()), "eth_getTransactionCount", json!([s, "latest"]));
        ask(inst, format!("eth_getCode({})", a.hex()), "eth_getCode", json!([s]));
        ask(inst, format!("brc20_getInscriptionIdByContractAddress({})", a.hex()), "brc20_getInscriptionIdByContractAddress", json!([s]));
        ask(inst, format!("txpool_contentFrom({})", a.hex()), "txpool_contentFrom", json!([s]));
    }
    for (a, k) in &u.storage {
        ask(inst, format!("eth_getStorageAt({},{})", a.hex(), k.hex()), "eth_getStorageAt", json!([a.hex0x(), k.hex0x()]));
    }
    for t in &u.tx_hashes {
        let s = t.hex0x();
        ask(inst, format!("eth_getTransactionByHash({})", t.hex()), "eth_getTransactionByHash", json!([s]));
        ask(inst, format!("eth_getTransactionReceipt({})", t.hex()), "eth_getTransactionReceipt", json!([s]));
        ask(inst, format!("brc20_getInscriptionIdByTxHash({})", t.hex()), "brc20_getInscriptionIdByTxHash", json!([s]));
        ask(inst, format!("debug_traceTransaction({})", t.hex()), "debug_traceTransaction", json!([s]));
    }
    for i in &u.insc_ids {
        ask(inst, format!("brc20_getTxReceiptByInscriptionId({})", i), "brc20_getTxReceiptByInscriptionId", json!([i]));
    }
    let mut stalled = u.block_open;
    for p in &u.pkscripts {
        for t in &u.tickers {
            let key = format!("brc20_balance({},{})", p, t);
            if stalled { o.insert(key, json!({"skipped": "a block is open"})); continue; }
            let t0 = std::time::Instant::now();
            let r = inst.rpc("brc20_balance", json!([p, t]));
            // the engine makes executing reads wait (5 s) while a block is open; one such wait is enough
            if t0.elapsed() > Duration::from_secs(3) { stalled = true; o.insert(key, json!({"skipped": "a block is open"})); continue; }
            o.insert(key, canon_result(r));
        }
    }
    o
}

/// The requests `observe` sends for this universe, as [method, params] pairs.
pub fn observation_requests(run: &mut Run) -> Vec<Value> {
    run.inst.recorded = Some(Vec::new());
    let _ = run.observe();
    run.inst.recorded.take().unwrap_or_default()
}

/// Keys on which two observations differ (with both values), in key order.
pub fn diff_obs(a: &BTreeMap<String, Value>, b: &BTreeMap<String, Value>) -> Vec<(String, Value, Value)> {
    let mut out = Vec::new();
    let keys: BTreeSet<&String> = a.keys().chain(b.keys()).collect();
    for k in keys {
        let (x, y) = (a.get(k).cloned().unwrap_or(json!("<absent>")), b.get(k).cloned().unwrap_or(json!("<absent>")));
        if x != y { out.push((k.clone(), x, y)); }
    }
    out
}

/// method name of an observation key
pub fn obs_method(key: &str) -> &str { key.split('(').next().unwrap_or(key) }

// ------------------------------------------------------------------------------------------
// a run: instance + tracker + universe + log
// ------------------------------------------------------------------------------------------

pub struct Run {
    pub inst: Inst,
    pub tracker: Tracker,
    pub universe: Universe,
    /// resolved ops (all `Idx::Abs`) with their outcomes
    pub log: Vec<(Op, OpOut)>,
}

impl Run {
    pub fn new() -> Run { Run { inst: Inst::temp(), tracker: Tracker::default(), universe: Universe::new(), log: vec![] } }

    /// Replaces `Auto` / `Off` indexes by absolute values from the receipts seen so far.
    pub fn resolve(&self, op: &Op) -> Op {
        let mut r = op.clone();
        if let Some((_, _, idx)) = op.block_fields() {
            let w = self.tracker.waiting() as i64;
            let abs = match idx { Idx::Auto => w, Idx::Off(d) => (w + d).max(0), Idx::Abs(x) => x as i64 };
            r.set_idx(Idx::Abs(abs as u64));
        }
        r
    }

    pub fn step(&mut self, op: &Op) -> &OpOut {
        let r = self.resolve(op);
        let first_of_block = self.tracker.waiting() == 0;
        let t0 = std::time::Instant::now();
        let out = apply(&mut self.inst, &r);
        if t0.elapsed() > Duration::from_millis(300) && std::env::var("HX_SLOW").is_ok() {
            eprintln!("slow op ({:?}): {} {:?} -> {}", t0.elapsed(), r.kind(), if r.is_read() { Some(&r) } else { None }, out.status.class());
        }
        let idx = self.log.len();
        // remember what the open block was opened with
        if first_of_block && r.is_tx() && Tracker::effective(&r, &out) {
            if let Some((ts, hash, _)) = r.block_fields() {
                let produced = match &out.result { Value::Array(a) => !a.is_empty(), Value::Object(_) => true, _ => false };
                if produced { self.tracker.open.ts = ts; self.tracker.open.hash = resolve_hash(self.tracker.next_height(), hash); }
            }
        }
        self.tracker.on(idx, &r, &out);
        self.universe.absorb(&r, &out, self.tracker.height());
        self.log.push((r, out));
        &self.log.last().unwrap().1
    }

    /// Runs ops until one is answered Panic/Hang (that one is included). Returns true if all ran.
    pub fn run(&mut self, ops: &[Op]) -> bool {
        for op in ops {
            if self.step(op).status.is_fatal() { return false; }
        }
        true
    }

    pub fn observe(&mut self) -> BTreeMap<String, Value> { let u = self.universe.clone(); self.observe_with(&u) }
    pub fn observe_with(&mut self, u: &Universe) -> BTreeMap<String, Value> {
        let mut u = u.clone();
        u.block_open = !self.tracker.at_boundary() || self.tracker.desynced;
        observe(&mut self.inst, &u)
    }
    pub fn history(&self) -> Vec<Op> { self.log.iter().map(|x| x.0.clone()).collect() }
    pub fn statuses(&self) -> Vec<String> { self.log.iter().map(|x| x.1.status.class()).collect() }
}

// ------------------------------------------------------------------------------------------
// generators
// ------------------------------------------------------------------------------------------

#[derive(Clone, Copy, Debug, PartialEq, Eq, Serialize)]
pub enum CommitSchedule { Never, Every, EveryK(u64), Random }

#[derive(Clone, Copy, Debug, PartialEq, Eq, Serialize)]
pub enum Genesis { Initialise, Mine, Any }

#[derive(Clone, Debug, Serialize)]
pub struct GenParams {
    pub blocks: u64,
    pub max_txs: u64,
    pub schedule: CommitSchedule,
    pub genesis: Genesis,
    /// chance (per 100 boundaries) of Reorg / Clear / Reopen / a Mine call instead of a built block
    pub p_reorg: u64,
    pub p_clear: u64,
    pub p_reopen: u64,
    pub p_mine: u64,
    /// plant "park nonce k+1, k+2 ... then deliver k exactly at the expiry edge" plans
    pub edge_plans: bool,
    /// largest Mine(n)
    pub max_mine: u64,
    /// chance (per 100 histories) of one compact "pool edge" script: park k+1, park k+2 a few blocks
    /// later, deliver k exactly 9 / 10 / 11 blocks after the first parking (Mine calls skip the gaps)
    pub p_pool_script: u64,
    /// chance (per 100 histories) of ending with: park k+1, finalise, Mine(9), re-park a replacement
    /// for k+1 in the open block (and no finalise)
    pub p_pool_tail: u64,
}
impl GenParams {
    pub fn small() -> GenParams {
        GenParams { blocks: 10, max_txs: 6, schedule: CommitSchedule::Never, genesis: Genesis::Any, p_reorg: 8, p_clear: 4, p_reopen: 3, p_mine: 15, edge_plans: true, max_mine: 4, p_pool_script: 30, p_pool_tail: 0 }
    }
    /// no boundary ops that depend on what is durable, no reorgs
    pub fn plain(blocks: u64) -> GenParams {
        GenParams { blocks, p_reorg: 0, p_clear: 0, p_reopen: 0, ..GenParams::small() }
    }
}

pub const PKSCRIPTS: [&str; 4] = [
    "76a914f1b8e7e4f3f1f2f1e1f1f1f1f1f1f1f1f1f1f1f188ac",
    "0014aabbccddeeff00112233445566778899aabbccdd",
    "5120bf1ae4b4e5f7c0d3a9b8e1f20c4d5e6f708192a3b4c5d6e7f8091a2b3c4d5e6f",
    "7465737420706b736372697074",
];
pub const TICKERS: [&str; 5] = ["ordi", "ORDI", "Sats", "sats", "PiZzA"];

#[derive(Clone, Default)]
struct GenChain {
    /// expected nonce of each address (pkscript-derived and signers)
    nonces: BTreeMap<Address, u64>,
    /// multi-tools believed deployed: (address, inscription id)
    tools: Vec<(Address, String)>,
    /// parked (signer, nonce) believed in the pool
    parked: BTreeSet<(usize, u64)>,
}

struct Gen<'a> {
    rng: &'a mut Rng,
    p: &'a GenParams,
    out: Vec<Op>,
    /// state as of the end of each block (index = height)
    snaps: Vec<GenChain>,
    cur: GenChain,
    max_ever: u64,
    uid: u64,
    raws: Vec<Hx>,
    /// planned signed transactions: height -> (signer, nonce)
    plans: BTreeMap<u64, Vec<(usize, u64)>>,
    busy_until: [u64; SIGNERS],
    base_ts: u64,
}

fn intrinsic_ok(byte_len: u64, data_len: usize, create: bool) -> bool {
    let gas = byte_len.saturating_mul(12_000);
    let need = 21_000 + 40 * data_len as u64 + if create { 32_000 + 2 * ((data_len as u64 + 31) / 32) } else { 0 };
    gas >= need
}

impl<'a> Gen<'a> {
    fn height(&self) -> Option<u64> { if self.snaps.is_empty() { None } else { Some(self.snaps.len() as u64 - 1) } }
    fn next_height(&self) -> u64 { self.snaps.len() as u64 }
    fn fresh(&mut self, prefix: &str) -> String { self.uid += 1; format!("{}{}i0", prefix, self.uid) }
    fn fresh_hash(&mut self) -> Hx { self.uid += 1; Hx::b256(keccak256(format!("blk{}-{}", self.uid, self.rng.next()))) }
    fn rand32(&mut self) -> Hx { let mut v = Vec::new(); for _ in 0..4 { v.extend_from_slice(&self.rng.next().to_be_bytes()); } Hx(v) }
    fn small_u256(&mut self) -> U256 { U256::from(self.rng.below(4)) }
    fn pk(&mut self) -> String { PKSCRIPTS[self.rng.below(PKSCRIPTS.len() as u64) as usize].to_string() }
    fn enc(&mut self) -> Enc { match self.rng.below(10) { 0..=5 => Enc::Hex, 6..=8 => Enc::Base64, _ => Enc::Base64Packed } }

    fn byte_len(&mut self, data_len: usize) -> u64 {
        match self.rng.below(20) {
            0 => 1,
            1 => self.rng.range(2, 4),
            2 => 30,
            3 => data_len as u64,
            _ => 2000,
        }
    }

    fn tail(&mut self, ts: u64, hash: &Hx, insc: String, data_len: usize) -> Tail {
        Tail { ts, hash: hash.clone(), tx_idx: Idx::Auto, insc_id: insc, byte_len: self.byte_len(data_len), op_return_tx_id: self.rand32() }
    }

    fn action(&mut self) -> Vec<u8> {
        match self.rng.below(16) {
            0..=3 => cd::sstore(self.small_u256(), U256::from(self.rng.below(3))),
            4..=6 => { let n = self.rng.below(5) as usize; let ts: Vec<U256> = (0..n).map(|_| U256::from(70 + self.rng.below(4))).collect(); cd::log(&ts, U256::from(self.rng.below(1000))) }
            7 => cd::revert(),
            8 => cd::spin(),
            9 => cd::create(),
            10 => cd::sload(self.small_u256()),
            11 => cd::selfdestruct(),
            12 | 13 => cd::context(),
            _ => {
                let inner = match self.rng.below(4) { 0 => cd::revert(), 1 => cd::create(), 2 => cd::log(&[U256::from(71)], U256::from(5)), _ => cd::sstore(self.small_u256(), U256::from(9)) };
                let target = if self.cur.tools.is_empty() || self.rng.chance(1, 6) { Address::from_slice(&[0x77; 20]) } else { self.cur.tools[self.rng.below(self.cur.tools.len() as u64) as usize].0 };
                cd::call(target, &inner)
            }
        }
    }

    fn bump(&mut self, a: Address) -> u64 { let e = self.cur.nonces.entry(a).or_insert(0); let n = *e; *e += 1; n }

    fn gen_tx(&mut self, ts: u64, hash: &Hx) {
        let roll = self.rng.below(100);
        if roll < 14 || (self.cur.tools.is_empty() && roll < 40) {
            // deploy
            let pk = self.pk();
            let from = pkscript_address(&pk);
            let (data, good) = match self.rng.below(10) { 0 => (init_reverting(), false), 1 => (init_garbage(), false), _ => (multitool_init(), true) };
            let insc = self.fresh("dep");
            let tail = self.tail(ts, hash, insc.clone(), data.len());
            let enc = self.enc();
            if intrinsic_ok(tail.byte_len, data.len(), true) {
                let n = self.bump(from);
                if good && tail.byte_len >= 200 { self.cur.tools.push((from.create(n), insc)); }
            }
            self.out.push(Op::Deploy { from_pkscript: pk, data: Hx(data), enc, tail });
        } else if roll < 50 {
            // call an action
            let pk = self.pk();
            let from = pkscript_address(&pk);
            let data = self.action();
            let to = if self.cur.tools.is_empty() || self.rng.chance(1, 12) {
                match self.rng.below(3) { 0 => To::None, 1 => To::ByInscription("nosuchi0".into()), _ => To::ByAddress(Hx(vec![0x55; 20])) }
            } else {
                let (a, i) = self.cur.tools[self.rng.below(self.cur.tools.len() as u64) as usize].clone();
                if self.rng.chance(1, 2) { To::ByAddress(Hx::addr(a)) } else { To::ByInscription(i) }
            };
            let insc = self.fresh("call");
            let tail = self.tail(ts, hash, insc, data.len());
            let enc = self.enc();
            if intrinsic_ok(tail.byte_len, data.len(), false) { self.bump(from); }
            self.out.push(Op::Call { from_pkscript: pk, to, data: Hx(data), enc, tail });
        } else if roll < 60 {
            let amount = match self.rng.below(6) { 0 => "0x0".to_string(), 1 => format!("0x{}", "f".repeat(64)), _ => format!("0x{:x}", self.rng.range(1, 1000)) };
            let ticker = TICKERS[self.rng.below(TICKERS.len() as u64) as usize].to_string();
            let (pk, insc_id) = (self.pk(), self.fresh("dpst"));
            self.out.push(Op::Deposit { to_pkscript: pk, ticker, amount, ts, hash: hash.clone(), tx_idx: Idx::Auto, insc_id });
        } else if roll < 66 {
            let amount = format!("0x{:x}", self.rng.range(0, 600));
            let ticker = TICKERS[self.rng.below(TICKERS.len() as u64) as usize].to_string();
            let (pk, insc_id) = (self.pk(), self.fresh("wdrw"));
            self.out.push(Op::Withdraw { from_pkscript: pk, ticker, amount, ts, hash: hash.clone(), tx_idx: Idx::Auto, insc_id });
        } else if roll < 72 {
            // transfer (or a forbidden mint) through the controller
            let pk = self.pk();
            let from = pkscript_address(&pk);
            let to_addr = pkscript_address(&self.pk());
            let ticker = TICKERS[self.rng.below(TICKERS.len() as u64) as usize];
            let data = if self.rng.chance(1, 5) { controller_mint(ticker, to_addr, U256::from(5)) } else { controller_transfer(ticker, to_addr, U256::from(self.rng.range(0, 300))) };
            let insc = self.fresh("xfer");
            let mut tail = self.tail(ts, hash, insc, data.len());
            tail.byte_len = tail.byte_len.max(30);
            if intrinsic_ok(tail.byte_len, data.len(), false) { self.bump(from); }
            self.out.push(Op::Call { from_pkscript: pk, to: To::ByAddress(Hx::from_hex(CONTROLLER)), data: Hx(data), enc: Enc::Hex, tail });
        } else {
            self.gen_signed(ts, hash, None);
        }
    }

    /// a signed transaction; `forced` = (signer, nonce) from a plan
    fn gen_signed(&mut self, ts: u64, hash: &Hx, forced: Option<(usize, u64)>) {
        let h = self.next_height();
        let s = match forced { Some((s, _)) => s, None => {
            let free: Vec<usize> = (0..SIGNERS).filter(|s| self.busy_until[*s] < h).collect();
            if free.is_empty() { self.rng.below(SIGNERS as u64) as usize } else { free[self.rng.below(free.len() as u64) as usize] }
        } };
        let addr = signer_address(s);
        let expected = *self.cur.nonces.get(&addr).unwrap_or(&0);
        let mut chain = CHAIN_ID;
        let mut garbage = false;
        let mut dup: Option<Hx> = None;
        let nonce = match forced {
            Some((_, n)) => n,
            None => match self.rng.below(20) {
                0..=8 => expected,
                9..=11 => expected + self.rng.range(1, 3),
                12 => expected + self.rng.range(9, 11),
                13 => expected.saturating_sub(self.rng.range(1, 2)),
                14 => { if !self.raws.is_empty() { dup = Some(self.raws[self.rng.below(self.raws.len() as u64) as usize].clone()); } expected }
                15 => { // replacement of something parked
                    let mine: Vec<u64> = self.cur.parked.iter().filter(|(x, _)| *x == s).map(|(_, n)| *n).collect();
                    if mine.is_empty() { expected + 1 } else { mine[self.rng.below(mine.len() as u64) as usize] }
                }
                16 => { chain = if self.rng.chance(1, 2) { 0x4252_4332_30 } else { 1 }; expected }
                17 => { garbage = true; expected }
                _ => expected,
            },
        };
        let (to, data) = if self.cur.tools.is_empty() || self.rng.chance(1, 5) {
            (None, multitool_init())
        } else {
            let t = self.cur.tools[self.rng.below(self.cur.tools.len() as u64) as usize].0;
            (Some(t), self.action())
        };
        let create = to.is_none();
        let raw = if let Some(d) = dup { d } else if garbage {
            let mut v = sign_legacy(s, nonce, to, data.clone(), chain);
            match self.rng.below(3) { 0 => { v.truncate(v.len() / 2); } 1 => { v = vec![0xc0]; } _ => { v[0] ^= 0x55; } }
            Hx(v)
        } else { Hx(sign_legacy(s, nonce, to, data.clone(), chain)) };
        let insc = self.fresh("sgn");
        let tail = self.tail(ts, hash, insc.clone(), raw.0.len());
        let enc = self.enc();
        if !garbage && chain == CHAIN_ID {
            if nonce == expected && intrinsic_ok(tail.byte_len, data.len(), create) {
                let n = self.bump(addr);
                if create && tail.byte_len >= 200 { self.cur.tools.push((addr.create(n), insc)); }
                // drain what is parked right behind (expiry is not modelled here: this is only a belief)
                let mut k = n + 1;
                while self.cur.parked.remove(&(s, k)) { self.bump(addr); k += 1; }
            } else if nonce > expected && nonce < expected + 10 {
                self.cur.parked.insert((s, nonce));
            }
            self.raws.push(raw.clone());
        }
        self.out.push(Op::Transact { raw_tx: raw, enc, tail });
    }

    fn block_params(&mut self) -> (u64, Hx) {
        let h = self.next_height();
        let ts = self.base_ts + 600 * h + self.rng.below(5);
        let hash = if self.rng.chance(1, 2) { Hx::zero32() } else { self.fresh_hash() };
        (ts, hash)
    }

    fn finish_block(&mut self) {
        self.snaps.push(self.cur.clone());
        let h = self.height().unwrap();
        self.max_ever = self.max_ever.max(h);
        // believed pool expiry
        self.cur.parked = std::mem::take(&mut self.cur.parked);
    }

    fn build_block(&mut self) {
        let (ts, hash) = self.block_params();
        let h = self.next_height();
        if let Some(pl) = self.plans.remove(&h) {
            for f in pl { self.gen_signed(ts, &hash, Some(f)); }
        }
        let n = match self.rng.below(10) { 0 | 1 => 0, _ => self.rng.range(1, self.p.max_txs.max(1)) };
        for _ in 0..n { self.gen_tx(ts, &hash); }
        if self.p.edge_plans && self.rng.chance(1, 5) { self.plant_plan(h); }
        self.out.push(Op::Finalise { ts, hash, tx_count: Idx::Auto });
        self.finish_block();
    }

    /// park k+1 now, k+2 a few blocks later, deliver k around the expiry edge of k+1
    fn plant_plan(&mut self, h: u64) {
        let s = self.rng.below(SIGNERS as u64) as usize;
        if self.busy_until[s] >= h { return; }
        let k = *self.cur.nonces.get(&signer_address(s)).unwrap_or(&0);
        let edge = h + 1 + self.rng.range(9, 11);
        self.plans.entry(h + 1).or_default().push((s, k + 1));
        self.plans.entry(h + 1 + self.rng.range(1, 8)).or_default().push((s, k + 2));
        self.plans.entry(edge).or_default().push((s, k));
        self.busy_until[s] = edge;
    }

    /// one block holding exactly the given planned signed transactions (plus maybe ordinary ones)
    fn block_with(&mut self, forced: &[(usize, u64)], extra: bool) {
        let (ts, hash) = self.block_params();
        for f in forced { self.gen_signed(ts, &hash, Some(*f)); }
        if extra { let n = self.rng.below(3); for _ in 0..n { self.gen_tx(ts, &hash); } }
        self.out.push(Op::Finalise { ts, hash, tx_count: Idx::Auto });
        self.finish_block();
    }

    fn pool_edge_script(&mut self) {
        let s = self.rng.below(SIGNERS as u64) as usize;
        let k = *self.cur.nonces.get(&signer_address(s)).unwrap_or(&0);
        self.busy_until[s] = u64::MAX;
        let edge = self.rng.range(9, 11); // delivery this many blocks after the first parking
        let d1 = self.rng.range(1, 8);    // second parking this many blocks after the first
        let start = self.next_height();
        if self.rng.chance(1, 4) {
            // the whole nonce window waiting: k+9 down to k+1 (in two blocks), then k: one call drains ten
            self.block_with(&[(s, k + 9), (s, k + 8), (s, k + 7), (s, k + 6), (s, k + 5)], false);
            self.block_with(&[(s, k + 4), (s, k + 3), (s, k + 2), (s, k + 1)], false);
            let now = self.next_height();
            let target = start + self.rng.range(2, 9);
            if target > now { self.mine(target - now); }
            self.block_with(&[(s, k)], true);
            self.busy_until[s] = 0;
            return;
        }
        if self.rng.chance(1, 4) {
            // the OLDER, LOWER nonce expires at a finalise while a younger, higher one still waits: the sweep
            // takes the expired one only; then the gap is refilled (k+1 again, then k) before k+2 expires
            let gap = self.rng.range(3, 7);
            self.block_with(&[(s, k + 1)], true);
            self.mine(gap - 1);
            self.block_with(&[(s, k + 2)], false);
            let now = self.next_height();
            // blocks start .. start+10 finalised: (s, k+1) is ten blocks old, (s, k+2) is not
            if start + 11 > now { self.mine(start + 11 - now); }
            self.block_with(&[(s, k + 1)], false);
            self.block_with(&[(s, k)], true);
            self.busy_until[s] = 0;
            return;
        }
        if self.rng.chance(1, 2) {
            // an expired entry BETWEEN live ones: k+2 first, k+1 and k+3 later, k around the expiry edge
            // of k+2 (the drain must stop at k+2 although k+1 ran and k+3 is still fresh)
            self.block_with(&[(s, k + 2)], true);
            if d1 > 1 { self.mine(d1 - 1); }
            self.block_with(&[(s, k + 1), (s, k + 3)], false);
        } else {
            self.block_with(&[(s, k + 1)], true);
            if d1 > 1 { self.mine(d1 - 1); }
            self.block_with(&[(s, k + 2)], false);
        }
        let now = self.next_height();
        let target = start + edge;
        if target > now { self.mine(target - now); }
        self.block_with(&[(s, k)], true);
        self.busy_until[s] = 0;
    }

    fn pool_tail(&mut self) {
        let s = self.rng.below(SIGNERS as u64) as usize;
        let k = *self.cur.nonces.get(&signer_address(s)).unwrap_or(&0);
        self.block_with(&[(s, k + 1)], false);
        self.mine(9);
        // a replacement (other payload) for the same nonce, in the open block
        let (ts, hash) = self.block_params();
        let raw = Hx(sign_legacy(s, k + 1, Some(Address::from_slice(&[0x66; 20])), cd::sload(U256::from(5)), CHAIN_ID));
        let insc = self.fresh("tail");
        let tail = Tail { ts, hash, tx_idx: Idx::Auto, insc_id: insc, byte_len: 2000, op_return_tx_id: self.rand32() };
        self.out.push(Op::Transact { raw_tx: raw, enc: Enc::Hex, tail });
    }

    fn mine(&mut self, n: u64) {
        let ts = self.base_ts + 600 * self.next_height();
        self.out.push(Op::Mine { n, ts });
        let blocks = if self.snaps.is_empty() { n } else { n };
        for _ in 0..blocks { self.finish_block(); }
    }

    fn boundary(&mut self) {
        let Some(h) = self.height() else { return };
        let r = self.rng.below(100);
        if r < self.p.p_reorg {
            let lo = h.saturating_sub(12);
            let mostly_ok_lo = h.saturating_sub(W).max(self.max_ever.saturating_sub(W));
            // the edges of the window matter most: the deepest admissible target, and the first one refused
            let n = match self.rng.below(8) {
                0 | 1 if mostly_ok_lo <= h => mostly_ok_lo,
                2 if mostly_ok_lo >= 1 => mostly_ok_lo - 1,
                3..=6 if mostly_ok_lo <= h => self.rng.range(mostly_ok_lo, h),
                _ => self.rng.range(lo, h + 1),
            };
            self.out.push(Op::Reorg(n));
            let accepted = n <= h && h - n <= W && (n == h || self.max_ever <= n + W);
            if accepted && n < h {
                self.snaps.truncate(n as usize + 1);
                self.cur = self.snaps.last().cloned().unwrap_or_default();
                self.plans.clear();
                self.busy_until = [0; SIGNERS];
            }
        } else if r < self.p.p_reorg + self.p.p_clear {
            self.out.push(Op::Clear);
        } else if r < self.p.p_reorg + self.p.p_clear + self.p.p_reopen {
            self.out.push(Op::Reopen);
        }
    }
}

/// A structured, mostly valid block-building history. Transaction indexes and finalise counts are
/// `Idx::Auto` (resolved against the receipts while running, see `Run::step`). Contains no Commit:
/// use `with_schedule`. Clear / Reopen are only generated when the schedule says what is durable,
/// i.e. they are placed by `gen_history` after applying `p.schedule`.
pub fn gen_history(rng: &mut Rng, p: &GenParams) -> Vec<Op> {
    let base_ts = 1_700_000_000 + rng.below(1000);
    let mut g = Gen { rng, p, out: vec![], snaps: vec![], cur: GenChain::default(), max_ever: 0, uid: 0, raws: vec![], plans: BTreeMap::new(), busy_until: [0; SIGNERS], base_ts };
    // genesis
    let use_init = match p.genesis { Genesis::Initialise => true, Genesis::Mine => false, Genesis::Any => g.rng.chance(4, 5) };
    if use_init {
        let hash = if g.rng.chance(1, 2) { Hx::zero32() } else { g.fresh_hash() };
        g.out.push(Op::Initialise { hash, ts: base_ts, height: 0 });
        g.cur.nonces.insert(Hx::from_hex(INDEXER).to_address(), 1);
        g.finish_block();
    } else {
        let n = g.rng.range(1, 3);
        g.mine(n);
    }
    let script_at = if g.rng.below(100) < p.p_pool_script { Some(g.rng.range(1, p.blocks.max(2) / 2 + 1)) } else { None };
    let tail = g.rng.below(100) < p.p_pool_tail;
    let mut script_done = false;
    while g.next_height() <= p.blocks {
        if !script_done && script_at.map(|x| g.next_height() >= x).unwrap_or(false) {
            script_done = true;
            g.pool_edge_script();
        } else if g.rng.below(100) < p.p_mine {
            let n = if g.rng.chance(1, 8) { g.rng.range(p.max_mine, p.max_mine + 9) } else { g.rng.range(1, p.max_mine.max(1)) };
            g.mine(n);
        } else {
            g.build_block();
        }
        g.boundary();
    }
    if tail { g.pool_tail(); }
    let out = std::mem::take(&mut g.out);
    let mut r2 = g.rng.fork();
    with_schedule(&out, p.schedule, &mut r2)
}

/// Inserts Commit after block-closing calls according to the schedule (existing Commits are kept).
pub fn with_schedule(h: &[Op], s: CommitSchedule, rng: &mut Rng) -> Vec<Op> {
    let mut out = Vec::with_capacity(h.len() + 8);
    let mut k = 0u64;
    for op in h {
        out.push(op.clone());
        if matches!(op, Op::Finalise { .. } | Op::Mine { .. } | Op::Initialise { .. }) {
            k += 1;
            let commit = match s {
                CommitSchedule::Never => false,
                CommitSchedule::Every => true,
                CommitSchedule::EveryK(n) => n > 0 && k % n == 0,
                CommitSchedule::Random => rng.chance(1, 3),
            };
            if commit { out.push(Op::Commit); }
        }
    }
    out
}

#[derive(Clone, Debug, Serialize)]
pub struct Injected { pub pos: usize, pub kind: &'static str }

/// Inserts out-of-protocol calls at arbitrary positions (also mid-block). Returns the new history
/// and where what was inserted. Whether a given insertion must be refused depends on the state it
/// meets: `Tracker::must_reject` is the judge.
pub fn inject_malformed(rng: &mut Rng, h: &[Op], count: usize) -> (Vec<Op>, Vec<Injected>) {
    let mut out: Vec<Op> = h.to_vec();
    let mut inj: Vec<Injected> = Vec::new();
    let mut uid = 0u64;
    for _ in 0..count {
        if out.is_empty() { break; }
        let pos = if rng.chance(1, 12) { 0 } else { rng.below(out.len() as u64 + 1) as usize };
        // the block-carrying call nearest before the position (its ts/hash are those of the open block)
        let near = out[..pos].iter().rev().find(|o| o.block_fields().is_some()).cloned();
        let near_tx = out[..pos].iter().rev().find(|o| o.is_tx()).cloned();
        // any earlier explicit or generated block hash
        let old_hash = out[..pos].iter().rev().filter_map(|o| match o { Op::Finalise { hash, .. } if !hash.is_zero() => Some(hash.clone()), _ => None }).nth(rng.below(2) as usize).unwrap_or_else(|| generated_hash(0));
        uid += 1;
        let fresh = format!("mal{}i0", uid);
        let (ts, hash) = near.as_ref().and_then(|o| o.block_fields()).map(|(t, h, _)| (t, h.clone())).unwrap_or((1_700_000_123, Hx::zero32()));
        let mk_call = |enc: Enc, tx_idx: Idx, ts: u64, hash: Hx, insc: String| Op::Call {
            from_pkscript: PKSCRIPTS[3].to_string(), to: To::ByAddress(Hx::from_hex(CONTROLLER)), data: Hx(cd::sstore(U256::from(1), U256::from(1))), enc,
            tail: Tail { ts, hash, tx_idx, insc_id: insc, byte_len: 500, op_return_tx_id: Hx::zero32() },
        };
        let mk_deploy = |enc: Enc, insc: String| Op::Deploy {
            from_pkscript: PKSCRIPTS[2].to_string(), data: Hx(multitool_init()), enc,
            tail: Tail { ts, hash: hash.clone(), tx_idx: Idx::Auto, insc_id: insc, byte_len: 2000, op_return_tx_id: Hx::zero32() },
        };
        let mk_transact = |enc: Enc, raw: Vec<u8>, insc: String| Op::Transact {
            raw_tx: Hx(raw), enc, tail: Tail { ts, hash: hash.clone(), tx_idx: Idx::Auto, insc_id: insc, byte_len: 2000, op_return_tx_id: Hx::zero32() },
        };
        let roll = if pos == 0 && rng.chance(1, 2) { 13 } else { rng.below(27) };
        // "differs from the open block" only means something while a block is open: move behind a transaction
        // commit / reorg / mine "anywhere": two times out of three right behind a transaction (a block is open)
        let behind_tx = matches!(roll, 3 | 4 | 5) || (matches!(roll, 10 | 11 | 12) && rng.chance(2, 3));
        let pos = if behind_tx { (pos..out.len()).find(|p| *p > 0 && out[*p - 1].is_tx()).unwrap_or(pos) } else { pos };
        let (kind, op): (&'static str, Op) = match roll {
            0 => ("wrong_tx_idx_plus", { let mut o = near_tx.clone().unwrap_or_else(|| mk_call(Enc::Hex, Idx::Auto, ts, hash.clone(), fresh.clone())); o.set_idx(Idx::Off(1 + rng.below(3) as i64)); o }),
            1 => ("wrong_tx_idx_minus", mk_call(Enc::Hex, Idx::Off(-1), ts, hash.clone(), fresh.clone())),
            2 => ("wrong_tx_idx_abs", mk_call(Enc::Hex, Idx::Abs(rng.range(7, 1 << 40)), ts, hash.clone(), fresh.clone())),
            3 => ("other_timestamp", mk_call(Enc::Hex, Idx::Auto, ts + 1 + rng.below(3), hash.clone(), fresh.clone())),
            4 => ("other_hash", mk_call(Enc::Hex, Idx::Auto, ts, Hx::b256(keccak256(format!("other{}", rng.next()))), fresh.clone())),
            5 => ("deposit_other_timestamp", Op::Deposit { to_pkscript: PKSCRIPTS[0].into(), ticker: "ordi".into(), amount: "0x5".into(), ts: ts + 7, hash: hash.clone(), tx_idx: Idx::Auto, insc_id: fresh.clone() }),
            6 => ("finalise_wrong_count", Op::Finalise { ts, hash: hash.clone(), tx_count: Idx::Off(if rng.chance(1, 2) { 1 } else { -1 }) }),
            7 => ("finalise_other_hash", Op::Finalise { ts, hash: Hx::b256(keccak256(format!("fin{}", rng.next()))), tx_count: Idx::Auto }),
            8 => ("existing_hash_tx", mk_call(Enc::Hex, Idx::Auto, ts, old_hash.clone(), fresh.clone())),
            9 => ("existing_hash_finalise", Op::Finalise { ts, hash: old_hash.clone(), tx_count: Idx::Auto }),
            10 => ("commit_anywhere", Op::Commit),
            11 => ("reorg_anywhere", Op::Reorg(rng.below(4))),
            12 => ("mine_anywhere", Op::Mine { n: 1, ts }),
            13 => ("mine_zero", Op::Mine { n: 0, ts }),
            14 => { let e = *rng.pick(&[Enc::Both, Enc::BothBadHex, Enc::BothBadBase64]); ("both_encodings", if rng.chance(1, 2) { mk_deploy(e, fresh.clone()) } else { mk_call(e, Idx::Auto, ts, hash.clone(), fresh.clone()) }) }
            15 => ("neither_encoding", match rng.below(3) { 0 => mk_deploy(Enc::Neither, fresh.clone()), 1 => mk_call(Enc::Neither, Idx::Auto, ts, hash.clone(), fresh.clone()), _ => mk_transact(Enc::Neither, vec![], fresh.clone()) }),
            16 => ("transact_both_encodings", mk_transact(*rng.pick(&[Enc::Both, Enc::BothBadHex, Enc::BothBadBase64]), sign_legacy(0, 0, None, vec![], CHAIN_ID), fresh.clone())),
            17 => ("transact_bad_hex", mk_transact(Enc::BadHex, vec![], fresh.clone())),
            18 => ("transact_bad_base64", mk_transact(Enc::BadBase64, vec![], fresh.clone())),
            19 => ("transact_garbage_rlp", mk_transact(Enc::Hex, vec![0xf8, 0x99, 1, 2, 3], fresh.clone())),
            20 => ("deploy_bad_hex", mk_deploy(Enc::BadHex, fresh.clone())),
            21 => ("call_bad_base64", mk_call(Enc::BadBase64, Idx::Auto, ts, hash.clone(), fresh.clone())),
            22 => ("reorg_too_high", Op::Reorg(1 << 40)),
            25 => ("deploy_empty_base64", mk_deploy(Enc::EmptyBase64, fresh.clone())),
            26 => ("transact_empty_base64", mk_transact(Enc::EmptyBase64, vec![], fresh.clone())),
            24 => ("initialise_other_height", Op::Initialise { hash: Hx::b256(keccak256(b"elsewhere")), ts, height: 1 << 20 }),
            _ => ("initialise_other_hash", Op::Initialise { hash: Hx::b256(keccak256(b"another genesis")), ts, height: 0 }),
        };
        out.insert(pos, op);
        for i in inj.iter_mut() { if i.pos >= pos { i.pos += 1; } }
        inj.push(Injected { pos, kind });
    }
    inj.sort_by_key(|i| i.pos);
    (out, inj)
}

/// Read requests worth interleaving, built from what the run has seen (real contract addresses).
/// a call on which revm answers with an error instead of an execution result: the blake2f
/// precompile (0x09) called directly with a malformed input, or a sender that carries code
fn hard_error_call(rng: &mut Rng, from: &Option<Hx>, tool: &Option<Hx>) -> CallSpec {
    let mut blake = vec![0u8; 20]; blake[19] = 9;
    match (rng.below(2), tool) {
        (0, Some(t)) => CallSpec { from: Some(t.clone()), to: tool.clone(), data: Hx(cd::sstore(U256::from(1), U256::from(99))) },
        _ => CallSpec { from: from.clone(), to: Some(Hx(blake)), data: Hx(vec![1, 2, 3]) },
    }
}

pub fn gen_reads(rng: &mut Rng, u: &Universe, height: Option<u64>, n: usize) -> Vec<Op> {
    let mut out = Vec::new();
    let tools: Vec<Hx> = u.contracts.iter().filter(|c| c.hex() != CONTROLLER).cloned().collect();
    let any_addr = |rng: &mut Rng| -> Hx { let v: Vec<&Hx> = u.addresses.iter().collect(); (*rng.pick(&v)).clone() };
    let h = height.unwrap_or(0);
    for _ in 0..n {
        let tool = if tools.is_empty() { None } else { Some(tools[rng.below(tools.len() as u64) as usize].clone()) };
        let from = match rng.below(3) { 0 => None, 1 => Some(Hx::addr(pkscript_address(PKSCRIPTS[0]))), _ => Some(Hx::addr(signer_address(0))) };
        let mutating: Vec<u8> = match rng.below(8) {
            0 | 1 => cd::sstore(U256::from(rng.below(3)), U256::from(1234)),
            2 => cd::create(), 3 => cd::log(&[U256::from(70)], U256::from(1)), 4 => cd::selfdestruct(),
            5 => cd::revert(), 6 => cd::context(), _ => cd::spin(),
        };
        let block = match rng.below(6) { 0 => Some("latest".to_string()), 1 => Some(hexn(rng.below(h + 2))), 2 => Some("pending".to_string()), _ => None };
        let op = match rng.below(22) {
            // a single simulated call that the EVM refuses before running it (an Err of the simulation, not a revert)
            0 if rng.chance(1, 2) => { let c = hard_error_call(rng, &from, &tool); Op::EthCall { from: c.from, to: c.to, data: c.data, block } }
            0..=3 => Op::EthCall { from, to: tool.clone(), data: Hx(mutating), block },
            4 => Op::EthCall { from, to: None, data: Hx(multitool_init()), block },
            5 | 6 => {
                let k = U256::from(rng.below(3));
                let mut calls = vec![
                    CallSpec { from: from.clone(), to: tool.clone(), data: Hx(cd::sstore(k, U256::from(4321))) },
                    CallSpec { from: from.clone(), to: tool.clone(), data: Hx(cd::sload(k)) },
                ];
                if rng.chance(1, 3) { calls.push(CallSpec { from: from.clone(), to: tool.clone(), data: Hx(cd::revert()) }); }
                if rng.chance(1, 3) { calls.insert(0, CallSpec { from: from.clone(), to: None, data: Hx(multitool_init()) }); }
                // a later call that makes the EVM return a hard error (not a revert): the batch
                // is abandoned half-way, after earlier calls have written to the journal
                if rng.chance(1, 3) { calls.push(hard_error_call(rng, &from, &tool)); }
                // op_return tx ids: one per call, none, or FEWER than calls (the missing ones read as zero)
                let ids: Option<Vec<Hx>> = match rng.below(4) {
                    0 | 1 => Some(calls.iter().map(|_| Hx::n32(rng.below(1000))).collect()),
                    2 => Some(calls.iter().skip(1).map(|_| Hx::n32(rng.below(1000))).collect()),
                    _ => None,
                };
                Op::EthCallMany { calls, block, op_return_tx_ids: ids }
            }
            7 => match rng.below(4) {
                // refused by the EVM outright / a bisection probe below the intrinsic (floor) cost of a long calldata
                0 => { let c = hard_error_call(rng, &from, &tool); Op::EstimateGas { from: c.from, to: c.to, data: c.data, block } }
                1 => Op::EstimateGas { from, to: tool.clone(), data: Hx(vec![0xAB; 1500 + rng.below(1500) as usize]), block },
                _ => Op::EstimateGas { from, to: tool.clone(), data: Hx(if rng.chance(1, 2) { cd::sstore(U256::from(1), U256::from(7)) } else { cd::context() }), block },
            },
            8 => {
                let mut calls = vec![CallSpec { from: from.clone(), to: tool.clone(), data: Hx(cd::sstore(U256::from(2), U256::from(7))) }, CallSpec { from: from.clone(), to: tool.clone(), data: Hx(cd::create()) }];
                if rng.chance(1, 3) { calls.push(hard_error_call(rng, &from, &tool)); }
                Op::EstimateGasMany { calls, block }
            }
            9 => Op::Balance { pkscript: PKSCRIPTS[rng.below(4) as usize].to_string(), ticker: TICKERS[rng.below(5) as usize].to_string() },
            10 => { let a = rng.below(h + 2); let b = a + rng.below(7); Op::GetLogs { from: Some(hexn(a)), to: Some(hexn(b)), address: None, topics: None } }
            11 => Op::GetLogs { from: Some(hexn(h)), to: Some(hexn(h.saturating_sub(1 + rng.below(2)))), address: tool.clone(), topics: Some(json!([[Hx::n32(70).hex0x(), null]])) },
            12 => Op::Query { method: "eth_getBlockByNumber".into(), params: json!([hexn(rng.below(h + 2)), rng.chance(1, 2)]) },
            13 => Op::Query { method: "eth_getCode".into(), params: json!([any_addr(rng).hex0x()]) },
            14 => Op::Query { method: "eth_getStorageAt".into(), params: json!([any_addr(rng).hex0x(), hexn(rng.below(3))]) },
            15 => Op::Query { method: "debug_getBlockTraceHash".into(), params: json!([hexn(rng.below(h + 2))]) },
            16 => Op::Query { method: "txpool_content".into(), params: json!([]) },
            17 => Op::Query { method: "debug_getRawBlock".into(), params: json!([hexn(rng.below(h + 2))]) },
            18 => { let v: Vec<&Hx> = u.tx_hashes.iter().collect(); let t = if v.is_empty() { Hx::zero32() } else { (*rng.pick(&v)).clone() };
                    Op::Query { method: (*rng.pick(&["eth_getTransactionReceipt", "eth_getTransactionByHash", "debug_traceTransaction", "brc20_getInscriptionIdByTxHash"])).to_string(), params: json!([t.hex0x()]) } }
            19 => { let v: Vec<&String> = u.insc_ids.iter().collect(); let t = if v.is_empty() { "x".to_string() } else { (*rng.pick(&v)).clone() };
                    Op::Query { method: "brc20_getTxReceiptByInscriptionId".into(), params: json!([t]) } }
            20 => Op::Query { method: (*rng.pick(&["eth_chainId", "eth_gasPrice", "net_version", "eth_syncing", "eth_accounts", "brc20_version", "web3_clientVersion", "eth_blockNumber"])).to_string(), params: json!([]) },
            _ => Op::Query { method: "eth_getTransactionCount".into(), params: json!([any_addr(rng).hex0x(), "latest"]) },
        };
        out.push(op);
    }
    out
}
