//! C20 correspondence run: the public `brc20_prog::start` on prepared database directories.
//! Exhaustive over (creating configuration, reopening configuration) for 7 network strings x 2
//! trace settings on both sides; fresh (absent path / empty directory), populated and foreign
//! non-empty directories; missing / tampered / extra rows written directly into the `config`
//! database; a first start-up that died while recording the rows (fail-point).  Per case: the
//! directory before, start() Ok/Err, the directory after, and where a server came up on a
//! directory that served before, whether it serves the same state.
//! Output: Coq case files for Model/Tie20.v and c20_meta.json.
use std::collections::BTreeMap;
use std::path::{Path, PathBuf};

use brc20_prog::verif_hooks as vh;
use brc20_prog::verif_hooks::{Decode, Encode};
use serde_json::{json, Value};

use crate::coqfmt as cf;
use crate::rpcx::{self, Http};

const NETWORKS: [&str; 7] = ["mainnet", "bitcoin", "signet", "testnet", "testnet4", "regtest", "mynet"];

#[derive(Clone, Debug, PartialEq)]
enum DirState { Absent, NotDir, Dir { other: bool, cfg: Option<Vec<(String, String)>> } }

fn read_rows(cfg_path: &Path) -> Result<Vec<(String, String)>, Box<dyn std::error::Error>> {
    let opts = rocksdb::Options::default();
    let db = rocksdb::DB::open_for_read_only(&opts, cfg_path, false)?;
    let mut rows = Vec::new();
    for item in db.iterator(rocksdb::IteratorMode::Start) {
        let (k, v) = item?;
        let k = String::decode_vec(&k.to_vec()).map_err(|e| format!("undecodable key: {}", e))?;
        let v = String::decode_vec(&v.to_vec()).map_err(|e| format!("undecodable value: {}", e))?;
        rows.push((k, v));
    }
    Ok(rows)
}

fn read_dir_state(p: &Path) -> Result<DirState, Box<dyn std::error::Error>> {
    if !p.exists() { return Ok(DirState::Absent); }
    if !p.is_dir() { return Ok(DirState::NotDir); }
    let mut other = false;
    let mut has_cfg = false;
    for e in std::fs::read_dir(p)? {
        let e = e?;
        if e.file_name() == "config" { has_cfg = true; } else { other = true; }
    }
    let cfg = if has_cfg { Some(read_rows(&p.join("config"))?) } else { None };
    Ok(DirState::Dir { other, cfg })
}

fn coq_dir(d: &DirState) -> String {
    match d {
        DirState::Absent => "DAbsent".into(),
        DirState::NotDir => "DNotDir".into(),
        DirState::Dir { other, cfg } => format!("(DDir {} {})", cf::boolean(*other),
            cf::opt(cfg, |r| cf::list(r, |(k, v)| format!("({}, {})", rpcx::coq_str(k), rpcx::coq_str(v))))),
    }
}

fn copy_dir(from: &Path, to: &Path) -> std::io::Result<()> {
    std::fs::create_dir_all(to)?;
    for e in std::fs::read_dir(from)? {
        let e = e?;
        let t = to.join(e.file_name());
        if e.file_type()?.is_dir() { copy_dir(&e.path(), &t)?; } else if e.file_name() != "LOCK" { std::fs::copy(e.path(), &t)?; }
    }
    Ok(())
}

#[derive(Clone, Debug)]
struct Cfg { network: String, traces: bool, auth_without_user: bool }
fn cfgs() -> Vec<Cfg> {
    let mut v = Vec::new();
    for n in NETWORKS { for t in [false, true] { v.push(Cfg { network: n.to_string(), traces: t, auth_without_user: false }); } }
    v
}

struct Acc {
    terms: Vec<String>, jsonl: Vec<String>, failures: Vec<Value>, samples: Vec<Value>,
    kinds: BTreeMap<String, u64>, started: u64, refused: u64, next_id: u64, distinct: std::collections::BTreeSet<String>,
    tmp: tempfile::TempDir, ndirs: u64,
}
impl Acc {
    fn newdir(&mut self) -> PathBuf { self.ndirs += 1; self.tmp.path().join(format!("d{}", self.ndirs)) }
}

async fn observe(addr: &str) -> Result<String, Box<dyn std::error::Error>> {
    let mut h = Http::new(addr);
    let body = json!([
        rpcx::request_json(Some(1), "eth_blockNumber", &json!([])),
        rpcx::request_json(Some(2), "eth_getBlockByNumber", &json!(["latest", true])),
        rpcx::request_json(Some(3), "eth_getBlockByNumber", &json!(["1", true])),
        rpcx::request_json(Some(4), "eth_chainId", &json!([])),
    ]).to_string();
    let r = h.post(&[], body.as_bytes()).await?;
    let v: Value = serde_json::from_slice(&r.body)?;
    Ok(crate::methods::canon(&v).to_string())
}

struct Started { ok: bool, err: String, obs: Option<String> }

/// start(cfg) on `dir`; when the server comes up: optionally mine + commit, observe, stop.
async fn start_on(dir: &Path, c: &Cfg, populate: bool) -> Result<Started, Box<dyn std::error::Error>> {
    let addr = format!("127.0.0.1:{}", rpcx::free_port());
    let mut cfg = rpcx::config(dir.to_str().unwrap(), &addr, None, &c.network, c.traces);
    if c.auth_without_user { cfg.brc20_prog_rpc_server_enable_auth = true; }
    match brc20_prog::start(cfg).await {
        Ok(h) => {
            if populate {
                let mut http = Http::new(&addr);
                for (m, p) in [("brc20_mine", json!([3, rpcx::TS])), ("brc20_commitToDatabase", json!([]))] {
                    let r = http.post(&[], rpcx::request_json(Some(1), m, &p).to_string().as_bytes()).await?;
                    let v: Value = serde_json::from_slice(&r.body)?;
                    if v.get("result").is_none() { return Err(format!("populate: {} answered {}", m, v).into()); }
                }
            }
            let obs = observe(&addr).await?;
            h.stop()?;
            h.stopped().await;
            Ok(Started { ok: true, err: String::new(), obs: Some(obs) })
        }
        Err(e) => Ok(Started { ok: false, err: e.to_string(), obs: None }),
    }
}

/// One compared case: start(c) on `dir` (already prepared). `expect_ok`: the harness's own
/// reference (None = no opinion). `prev_obs`: what the directory served before.
async fn case(acc: &mut Acc, kind: &str, dir: &Path, c: &Cfg, populate: bool, expect_ok: Option<bool>, prev_obs: Option<&str>, why: &str) -> Result<Started, Box<dyn std::error::Error>> {
    let before = read_dir_state(dir)?;
    let st = start_on(dir, c, populate).await?;
    // let RocksDB handles of the stopped server go away before reading the directory
    let mut after = read_dir_state(dir);
    for _ in 0..50 { if after.is_ok() { break; } tokio::time::sleep(std::time::Duration::from_millis(20)).await; after = read_dir_state(dir); }
    let after = after?;
    let kept = match (st.ok, prev_obs, &st.obs) { (true, Some(p), Some(o)) => !populate && p == o || populate, _ => true };
    let id = acc.next_id; acc.next_id += 1;
    let url = "127.0.0.1:0"; // the port is irrelevant to the model (non-empty URL)
    acc.terms.push(format!(
        "{{| dc_id := {}; dc_dir := {}; dc_cfg := {{| cfg_server_url := {}; cfg_enable_auth := {}; cfg_user := None; cfg_password := None; cfg_record_traces := {}; cfg_bitcoin_url := {}; cfg_network := {}; cfg_fail_on_btc_error := false |}}; dc_start_ok := {}; dc_after := {}; dc_state_kept := {} |}}",
        id, coq_dir(&before), rpcx::coq_str(url), cf::boolean(c.auth_without_user), cf::boolean(c.traces), rpcx::coq_str(""), rpcx::coq_str(&c.network),
        cf::boolean(st.ok), coq_dir(&after), cf::boolean(kept)));
    let cj = json!({"id": id, "kind": kind, "why": why, "dir_before": format!("{:?}", before), "network": c.network, "evm_record_traces": c.traces,
        "auth_enabled_without_user": c.auth_without_user, "start_ok": st.ok, "start_error": st.err, "dir_after": format!("{:?}", after), "state_kept": kept});
    acc.jsonl.push(cj.to_string());
    if acc.samples.len() < 6 && (id % 61 == 5 || acc.samples.is_empty()) { acc.samples.push(cj.clone()); }
    *acc.kinds.entry(kind.to_string()).or_insert(0) += 1;
    if st.ok { acc.started += 1; } else { acc.refused += 1; }
    acc.distinct.insert(format!("{:?}|{:?}", before, c));
    if let Some(e) = expect_ok {
        if e && !st.ok { acc.failures.push(json!({"what": format!("start-up failed although it had to succeed ({}): {}", why, st.err), "case": cj})); }
        if !e && st.ok { acc.failures.push(json!({"what": format!("start-up succeeded although it had to fail ({})", why), "case": cj})); }
    }
    if !kept { acc.failures.push(json!({"what": "the reopened database serves a different state than before the restart", "case": cj, "before": prev_obs, "after": st.obs})); }
    Ok(st)
}

fn set_row(dir: &Path, k: &str, v: &str) -> Result<(), Box<dyn std::error::Error>> {
    let mut db = vh::ConfigDatabase::new(dir, "config")?;
    db.set(k.to_string(), v.to_string())?;
    db.flush()?;
    Ok(())
}
fn del_row(dir: &Path, k: &str) -> Result<(), Box<dyn std::error::Error>> {
    let db = rocksdb::DB::open_default(dir.join("config"))?;
    db.delete(k.to_string().encode_vec())?;
    db.flush()?;
    Ok(())
}

async fn run_all(acc: &mut Acc, thorough: bool) -> Result<(), Box<dyn std::error::Error>> {
    let all = cfgs();
    let (dbv, pv) = vh::versions();

    // A. every creating configuration on a path that does not exist yet, then every reopening
    //    configuration on a copy of the populated directory
    let mut templates: Vec<(Cfg, PathBuf, String)> = Vec::new();
    for ca in &all {
        let dir = acc.newdir();
        let st = case(acc, "fresh_absent", &dir, ca, true, Some(true), None, "path absent: fresh run").await?;
        templates.push((ca.clone(), dir, st.obs.unwrap_or_default()));
    }
    for (ca, tdir, obs) in templates.clone() {
        for cb in &all {
            let dir = acc.newdir();
            copy_dir(&tdir, &dir)?;
            let same = ca.network == cb.network && ca.traces == cb.traces;
            let why = format!("created with network={} traces={}, reopened with network={} traces={}", ca.network, ca.traces, cb.network, cb.traces);
            case(acc, if same { "reopen_same" } else { "reopen_other" }, &dir, cb, false, Some(same), Some(&obs), &why).await?;
        }
    }
    let (base_cfg, base_dir, base_obs) = templates.iter().find(|(c, _, _)| c.network == "regtest" && !c.traces).cloned().unwrap();

    // B. existing empty directory
    for ca in all.iter().filter(|c| thorough || (c.network == "regtest" || c.network == "mainnet")) {
        let dir = acc.newdir();
        std::fs::create_dir_all(&dir)?;
        case(acc, "fresh_empty_dir", &dir, ca, true, Some(true), None, "empty directory: fresh run").await?;
    }

    // C. foreign non-empty directories, and a path that is not a directory
    for ca in all.iter().filter(|c| thorough || c.network == "regtest" || (c.network == "mynet" && c.traces)) {
        for what in ["stray_file", "empty_subdir", "dotfile", "not_a_directory"] {
            let dir = acc.newdir();
            match what {
                "stray_file" => { std::fs::create_dir_all(&dir)?; std::fs::write(dir.join("notes.txt"), b"hello")?; }
                "empty_subdir" => { std::fs::create_dir_all(dir.join("lost+found"))?; }
                "dotfile" => { std::fs::create_dir_all(&dir)?; std::fs::write(dir.join(".keep"), b"")?; }
                _ => { std::fs::write(&dir, b"i am a file")?; }
            }
            case(acc, &format!("foreign/{}", what), &dir, ca, false, Some(false), None, "non-empty directory without recorded configuration").await?;
        }
    }
    // populated database whose `config` database was removed
    {
        let dir = acc.newdir();
        copy_dir(&base_dir, &dir)?;
        std::fs::remove_dir_all(dir.join("config"))?;
        case(acc, "populated_without_config", &dir, &base_cfg, false, Some(false), Some(&base_obs), "tables present, config database removed").await?;
    }

    // D. missing / tampered / extra rows (reopened with the creating configuration)
    let keys = ["DB_VERSION", "PROTOCOL_VERSION", "BITCOIN_RPC_NETWORK", "EVM_RECORD_TRACES"];
    for k in keys {
        let dir = acc.newdir();
        copy_dir(&base_dir, &dir)?;
        del_row(&dir, k)?;
        case(acc, "row_missing", &dir, &base_cfg, false, Some(false), Some(&base_obs), &format!("row {} deleted", k)).await?;
    }
    let tampers: Vec<(&str, String)> = vec![
        ("DB_VERSION", (dbv + 1).to_string()), ("DB_VERSION", dbv.saturating_sub(1).to_string()), ("DB_VERSION", format!("0{}", dbv)), ("DB_VERSION", format!(" {}", dbv)), ("DB_VERSION", String::new()), ("DB_VERSION", format!("{}.0", dbv)),
        ("PROTOCOL_VERSION", (pv + 1).to_string()), ("PROTOCOL_VERSION", pv.saturating_sub(1).to_string()), ("PROTOCOL_VERSION", format!("0{}", pv)), ("PROTOCOL_VERSION", String::new()),
        ("BITCOIN_RPC_NETWORK", "mainnet".into()), ("BITCOIN_RPC_NETWORK", "Regtest".into()), ("BITCOIN_RPC_NETWORK", "regtest ".into()), ("BITCOIN_RPC_NETWORK", String::new()), ("BITCOIN_RPC_NETWORK", "regtest4".into()),
        ("EVM_RECORD_TRACES", "true".into()), ("EVM_RECORD_TRACES", "False".into()), ("EVM_RECORD_TRACES", "0".into()), ("EVM_RECORD_TRACES", String::new()),
    ];
    for (k, v) in &tampers {
        let dir = acc.newdir();
        copy_dir(&base_dir, &dir)?;
        set_row(&dir, k, v)?;
        case(acc, "row_tampered", &dir, &base_cfg, false, Some(false), Some(&base_obs), &format!("row {} overwritten with {:?}", k, v)).await?;
    }
    {
        // all four rows deleted: an empty config database in a populated directory
        let dir = acc.newdir();
        copy_dir(&base_dir, &dir)?;
        for k in keys { del_row(&dir, k)?; }
        case(acc, "rows_all_missing", &dir, &base_cfg, false, Some(false), Some(&base_obs), "all rows deleted").await?;
        // an unrelated extra row does not matter
        let dir = acc.newdir();
        copy_dir(&base_dir, &dir)?;
        set_row(&dir, "SOMETHING_ELSE", "1")?;
        case(acc, "row_extra", &dir, &base_cfg, false, Some(true), Some(&base_obs), "an unrelated extra row").await?;
        // rewriting a row with the same value does not matter
        let dir = acc.newdir();
        copy_dir(&base_dir, &dir)?;
        set_row(&dir, "DB_VERSION", &dbv.to_string())?;
        case(acc, "row_rewritten_same", &dir, &base_cfg, false, Some(true), Some(&base_obs), "DB_VERSION rewritten with the same value").await?;
    }

    // E. the first start-up recorded the rows and then failed in validate_config (authentication
    //    enabled without user): the directory is bound to that network / trace setting
    {
        let dir = acc.newdir();
        let bad = Cfg { network: "signet".into(), traces: true, auth_without_user: true };
        case(acc, "fresh_then_validate_config_fails", &dir, &bad, false, Some(false), None, "fresh run, but validate_config refuses the configuration").await?;
        // (if start-up validated the configuration first, nothing would have been recorded and
        //  both reopenings would be fresh runs)
        let bound = matches!(read_dir_state(&dir)?, DirState::Dir { cfg: Some(ref r), .. } if r.len() == 4);
        let d2 = acc.newdir(); if dir.exists() { copy_dir(&dir, &d2)?; }
        case(acc, "reopen_other", &d2, &Cfg { network: "mainnet".into(), traces: true, auth_without_user: false }, false, Some(!bound), None, "after a start-up that validate_config refused; other network").await?;
        let d3 = acc.newdir(); if dir.exists() { copy_dir(&dir, &d3)?; }
        case(acc, "reopen_same", &d3, &Cfg { network: "signet".into(), traces: true, auth_without_user: false }, false, Some(true), None, "after a start-up that validate_config refused; same network and traces").await?;
    }

    // F. the first start-up died while recording the rows (persistent write k fails): what is
    //    left must not reopen unless all four rows made it
    for k in 0..=4u64 {
        let dir = acc.newdir();
        vh::arm_failpoint(Some(k));
        let st = start_on(&dir, &base_cfg, false).await?;
        vh::arm_failpoint(None);
        if st.ok { acc.failures.push(json!({"what": "start-up succeeded although a write of the configuration rows failed", "case": {"failed_write": k}})); }
        let left = read_dir_state(&dir)?;
        let complete = matches!(&left, DirState::Dir { cfg: Some(r), .. } if r.len() == 4);
        case(acc, "after_crash_while_recording", &dir, &base_cfg, false, Some(complete), None, &format!("first start-up died at configuration write {}", k)).await?;
    }
    Ok(())
}

pub fn run(out: &Path, _seed: u64, thorough: bool) -> Result<(), Box<dyn std::error::Error>> {
    let rt = tokio::runtime::Builder::new_multi_thread().worker_threads(4).enable_all().build()?;
    let mut acc = Acc { terms: vec![], jsonl: vec![], failures: vec![], samples: vec![], kinds: BTreeMap::new(), started: 0, refused: 0, next_id: 0,
        distinct: Default::default(), tmp: tempfile::TempDir::new()?, ndirs: 0 };
    let t0 = std::time::Instant::now();
    rt.block_on(run_all(&mut acc, thorough))?;
    let imports = "From Brc.Model Require Import Base Config ConfigDb Tie20.\nFrom BrcGen Require Import Consts.";
    let files = cf::write_shards(out, "c20_d", imports, "dcase", "bad_dcases DB_VERSION PROTOCOL_VERSION", &acc.terms, 4)?;
    std::fs::write(out.join("c20_cases.jsonl"), acc.jsonl.join("\n") + "\n")?;
    let meta = json!({
        "files": files,
        "evaluations": acc.terms.len(),
        "distinct_nontrivial": acc.distinct.len(),
        "rule": "exhaustive: 14 creating configurations (7 network strings incl. an unknown one x trace on/off) on an absent path, each populated (3 blocks mined, committed) and reopened on a copy under all 14 configurations (196 pairs); empty directory; foreign non-empty directories (stray file, empty subdirectory, dotfile) and a non-directory path; populated directory with the config database removed; each of the four rows deleted; 19 tampered values (version +1/-1, leading zero, blank, other network, case, trailing space, other trace spellings); all rows deleted; an extra row; rows recorded by a start-up that then failed validate_config; a first start-up killed at each of the 5 configuration writes. A case is non-trivial when start() is called on a prepared directory (all are); distinct = distinct (directory state, configuration).",
        "samples": acc.samples,
        "impl_failures": acc.failures,
        "case_kinds": acc.kinds,
        "startups_succeeded": acc.started,
        "startups_refused": acc.refused,
        "db_version": vh::versions().0, "protocol_version": vh::versions().1,
        "server_seconds": t0.elapsed().as_secs_f64(),
    });
    std::fs::write(out.join("c20_meta.json"), serde_json::to_string_pretty(&meta)?)?;
    Ok(())
}
