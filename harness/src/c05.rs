//! C05 / C08 tie: the engine protocol model (coq/theories/Model/Engine.v) against the real
//! engine. Histories from the generator (plus injected out-of-protocol calls for C05, pool-edge
//! scripts for C08) are run through the real RPC table; every indexer call becomes a model
//! `call` together with what the oracles answered (RLP / signature layer: undecodable, wrong
//! chain, signer + nonce; revm: how many of the executions consumed the sender's nonce), and
//! after every call the implementation's answer class, next height, open-block transaction
//! count and pending pool are compared with the model's.
use std::collections::{BTreeMap, BTreeSet};
use std::path::Path;

use alloy::consensus::transaction::RlpEcdsaDecodableTx;
use alloy::consensus::{SignableTransaction, TxLegacy};
use alloy::primitives::{keccak256, Address};
use brc20_prog::verif_hooks::{Decode, TxED};
use serde_json::{json, Value};

use crate::coqfmt as cf;
use crate::rng::Rng;
use crate::sim::{gen_history, inject_malformed, pkscript_address, with_schedule, CommitSchedule, Enc, GenParams, Genesis, Hx, Idx, Op, Run, Status, CHAIN_ID, INDEXER};

fn addr_term(a: &Address) -> String {
    let h = hex::encode(a.0);
    let h = h.trim_start_matches('0');
    if h.is_empty() { "0".into() } else { format!("0x{}", h) }
}
fn hash_term(h: &Hx) -> String {
    let s = h.hex();
    let s = s.trim_start_matches('0');
    if s.is_empty() { "0".into() } else { format!("0x{}", s) }
}
fn idx_of(i: Idx) -> u64 { match i { Idx::Abs(x) => x, _ => 0 } }

enum Decoded { Undecodable, WrongChain, Signed(Address, u64) }

fn decode_raw(raw: &[u8]) -> Decoded {
    let mut slice: &[u8] = raw;
    let Ok((tx, sig)) = TxLegacy::rlp_decode_with_signature(&mut slice) else { return Decoded::Undecodable };
    if tx.chain_id != Some(CHAIN_ID) { return Decoded::WrongChain; }
    let signing_hash = keccak256(tx.encoded_for_signing());
    match sig.recover_address_from_prehash(&signing_hash) { Ok(a) => Decoded::Signed(a, tx.nonce), Err(_) => Decoded::Undecodable }
}

fn nonce(run: &mut Run, a: &Address) -> u64 {
    run.inst.rpc("eth_getTransactionCount", json!([format!("0x{}", hex::encode(a.0)), "latest"])).ok()
        .and_then(|v| v.as_str().map(|s| u64::from_str_radix(s.trim_start_matches("0x"), 16).unwrap_or(0))).unwrap_or(0)
}

/// height/next/waiting and the pool as (account, nonce, parked-in block)
fn engine_probe(run: &mut Run) -> Result<(u64, u64, Vec<(Address, u64, u64)>, bool), String> {
    let lo = hex::encode([0u8; 28]);
    let hi = hex::encode([0xffu8; 28]);
    let r = run.inst.rpc("verif_probe", json!({"ranges": [["account_and_nonce_to_tx_hash", lo, hi]], "rows": [["block_number_to_hash", 0]]})).map_err(|e| format!("{:?}", e))?;
    if let Some(e) = r.get("error") { return Err(e.to_string()); }
    let mut pool = Vec::new();
    for kv in r["ranges"][0].as_array().cloned().unwrap_or_default() {
        let k = hex::decode(kv[0].as_str().unwrap_or("")).unwrap_or_default();
        let v = hex::decode(kv[1].as_str().unwrap_or("")).unwrap_or_default();
        if k.len() != 28 { continue; }
        let a = Address::from_slice(&k[..20]);
        let n = u64::from_be_bytes(k[20..28].try_into().unwrap());
        let parked = TxED::decode_vec(&v).ok().and_then(|t| t.block_number).map(|b| { let x: u64 = b.into(); x }).unwrap_or(0);
        pool.push((a, n, parked));
    }
    let genesis_exists = !r["rows"][0].is_null();
    Ok((r["next"].as_u64().unwrap_or(0), r["waiting"].as_u64().unwrap_or(0), pool, genesis_exists))
}

/// the waiting set as the public methods list it: txpool_content (a scan of the whole table through `all()`)
/// and txpool_contentFrom of the given accounts (range scans)
fn rpc_pool(run: &mut Run, accounts: &BTreeSet<Address>) -> Result<(BTreeSet<(Address, u64)>, BTreeSet<(Address, u64)>), String> {
    fn keys(v: &Value) -> BTreeSet<(Address, u64)> {
        let mut out = BTreeSet::new();
        if let Some(m) = v.get("pending").and_then(|x| x.as_object()) {
            for (a, per) in m {
                let Ok(ab) = hex::decode(a.trim_start_matches("0x")) else { continue };
                if ab.len() != 20 { continue; }
                if let Some(pm) = per.as_object() {
                    for k in pm.keys() {
                        let n = if let Some(h) = k.strip_prefix("0x") { u64::from_str_radix(h, 16).ok() } else { k.parse::<u64>().ok() };
                        if let Some(n) = n { out.insert((Address::from_slice(&ab), n)); }
                    }
                }
            }
        }
        out
    }
    let all = keys(&run.inst.rpc("txpool_content", json!([])).map_err(|e| format!("txpool_content: {:?}", e))?);
    let mut from = BTreeSet::new();
    for a in accounts {
        let r = run.inst.rpc("txpool_contentFrom", json!([format!("0x{}", hex::encode(a.0))])).map_err(|e| format!("txpool_contentFrom: {:?}", e))?;
        from.extend(keys(&r));
    }
    Ok((all, from))
}

fn blocks_of(run: &mut Run, height: Option<u64>) -> Vec<(u64, Hx)> {
    let mut out = Vec::new();
    if let Some(h) = height {
        for n in 0..=h {
            if let Ok(b) = run.inst.rpc("eth_getBlockByNumber", json!([format!("0x{:x}", n), false])) {
                if let Some(hs) = b["hash"].as_str() { out.push((n, Hx::from_hex(hs))); }
            }
        }
    }
    out
}

/// C08: the same signed transaction inscribed again 1-9 blocks later (a fresh arrival: if it is
/// still waiting its window restarts; if its turn has come it executes; otherwise it is stale)
fn reinscribe(h: &[Op], rng: &mut Rng) -> Vec<Op> {
    let mut out: Vec<Op> = h.to_vec();
    let cands: Vec<usize> = h.iter().enumerate().filter(|(_, o)| matches!(o, Op::Transact { enc: Enc::Hex, .. })).map(|(i, _)| i).collect();
    let mut inserts: Vec<(usize, Op)> = Vec::new();
    for (k, i) in cands.iter().enumerate() {
        if !rng.chance(1, 2) { continue; }
        let d = 1 + rng.below(9);
        // position right after the d-th block-closing op that follows
        let mut seen = 0u64;
        let mut pos = None;
        for j in (*i + 1)..h.len() {
            if matches!(h[j], Op::Finalise { .. } | Op::Mine { .. }) { seen += 1; if seen == d { pos = Some(j + 1); break; } }
        }
        let Some(pos) = pos else { continue };
        let mut copy = h[*i].clone();
        if let Op::Transact { tail, .. } = &mut copy { tail.insc_id = format!("{}-again{}", tail.insc_id, k); tail.tx_idx = Idx::Auto; }
        // take the block fields of the block it lands in, if that block already has a first call
        if let Some(next) = h.get(pos) { if let Some((ts, hash, _)) = next.block_fields() { let hash = hash.clone(); copy.set_block(ts, &hash); } }
        inserts.push((pos, copy));
    }
    inserts.sort_by(|a, b| b.0.cmp(&a.0));
    for (pos, op) in inserts { out.insert(pos, op); }
    out
}

pub fn run(out: &Path, seed: u64, thorough: bool, prop: &str) -> Result<(), Box<dyn std::error::Error>> {
    let mut rng = Rng::new(seed ^ 0xC05E);
    let n = if thorough { 200 } else { 28 };
    let indexer = Address::from_slice(&hex::decode(INDEXER).unwrap());
    let mut terms = Vec::new();
    let mut jsonl = String::new();
    let mut failures: Vec<Value> = Vec::new();
    let mut dist: BTreeMap<String, u64> = BTreeMap::new();
    let mut samples = Vec::new();
    let mut n_calls = 0u64;
    let mut n_sops = 0u64;
    let mut n_pool_listings = 0u64;
    let mut aterms: Vec<String> = Vec::new();
    // the scripted histories of the search corpus are model cases as well
    let scripted: Vec<Vec<Op>> = crate::simcheck::corpus().into_iter().filter(|c| c.1 == "c05").map(|c| c.2).collect();
    for i in 0..(n + scripted.len()) {
        let mut p = GenParams::small();
        p.blocks = 5 + rng.below(9);
        p.max_txs = 5;
        p.genesis = if i % 4 == 0 { Genesis::Mine } else { Genesis::Initialise };
        p.schedule = *rng.pick(&[CommitSchedule::Never, CommitSchedule::Random]);
        p.p_reorg = 10; p.p_clear = 6; p.p_reopen = 0; p.p_mine = 20; p.max_mine = 11;
        if prop == "c08" { p.p_pool_script = 70; p.p_pool_tail = 25; p.edge_plans = true; }
        let mut h = if i < n { gen_history(&mut rng, &p) } else { scripted[i - n].clone() };
        if i < n {
            h = with_schedule(&h, p.schedule, &mut rng);
            if prop == "c05" {
                // one history in three re-inscribes waiting transactions first (a block opened by a re-parking only)
                if i % 3 == 1 { h = reinscribe(&h, &mut rng); }
                let k = 3 + rng.below(6) as usize; h = inject_malformed(&mut rng, &h, k).0;
            }
            if prop == "c08" { h = reinscribe(&h, &mut rng); }
        }
        let mut run = Run::new();
        let mut accounts: BTreeSet<Address> = BTreeSet::new();
        accounts.insert(indexer);
        let mut calls: Vec<String> = Vec::new();
        let mut acalls: Vec<String> = Vec::new();
        let mut problem: Option<String> = None;
        // reference for the pool clock (no model): the block in which (account, nonce) was last parked
        let mut last_parked: BTreeMap<(Address, u64), u64> = BTreeMap::new();
        let mut prev_pool: Vec<(Address, u64, u64)> = Vec::new();
        for op in &h {
            if op.is_read() || matches!(op, Op::Reopen) { continue; }
            // the sender whose nonce the call may consume
            let resolved = run.resolve(op);
            let sender: Option<Address> = match &resolved {
                Op::Deploy { from_pkscript, .. } | Op::Call { from_pkscript, .. } => Some(pkscript_address(from_pkscript)),
                Op::Deposit { .. } | Op::Withdraw { .. } | Op::Initialise { .. } => Some(indexer),
                Op::Transact { raw_tx, enc, .. } => match (enc, decode_raw(&raw_tx.0)) { (Enc::Hex | Enc::Base64 | Enc::Base64Packed, Decoded::Signed(a, _)) => Some(a), _ => None },
                _ => None,
            };
            if let Some(a) = sender { accounts.insert(a); }
            let before = sender.map(|a| nonce(&mut run, &a)).unwrap_or(0);
            let outp = run.step(op).clone();
            if outp.status.is_fatal() { problem = Some(format!("{} answered {}", op.kind(), outp.status.class())); break; }
            let resolved = run.log.last().unwrap().0.clone();
            let after = sender.map(|a| nonce(&mut run, &a)).unwrap_or(0);
            let consumed = after.saturating_sub(before);
            // what the implementation answered
            let (mut out_term, receipts) = match (&outp.status, &outp.result) {
                (Status::Ok, Value::Array(a)) => (format!("OOk {}", a.len()), a.len() as u64),
                (Status::Ok, Value::Object(_)) => ("OOk 1".to_string(), 1),
                (Status::Ok, _) => ("OOk 0".to_string(), 0),
                (Status::Rejected(m), _) if matches!(resolved, Op::Initialise { .. }) && m.starts_with("Bitcoin RPC status check failed") => ("OOk 0".to_string(), 0),
                (Status::Rejected(_), _) => ("ORejected".to_string(), 0),
                _ => ("OPanic".to_string(), 0),
            };
            let valids = |k: u64, total: u64| -> String {
                let v: Vec<String> = (0..total.max(k)).map(|j| if j < k { "true".to_string() } else { "false".to_string() }).collect();
                format!("[{}]", v.join("; "))
            };
            let (height_after, _) = (run.tracker.height(), 0);
            let call_term: Option<String> = match &resolved {
                Op::Deploy { enc: Enc::Both | Enc::BothBadHex | Enc::BothBadBase64 | Enc::Neither, .. } | Op::Call { enc: Enc::Both | Enc::BothBadHex | Enc::BothBadBase64 | Enc::Neither, .. } | Op::Transact { enc: Enc::Both | Enc::BothBadHex | Enc::BothBadBase64 | Enc::Neither, .. } => Some("CBadParams".to_string()),
                Op::Deploy { tail, .. } | Op::Call { tail, .. } => Some(format!("CTx {} {} {} {} {}", addr_term(&sender.unwrap()), idx_of(tail.tx_idx), tail.ts, hash_term(&tail.hash), cf::boolean(consumed > 0 || !outp.status.is_ok()))),
                Op::Deposit { ts, hash, tx_idx, .. } | Op::Withdraw { ts, hash, tx_idx, .. } => Some(format!("CTx {} {} {} {} {}", addr_term(&indexer), idx_of(*tx_idx), ts, hash_term(hash), cf::boolean(consumed > 0 || !outp.status.is_ok()))),
                Op::Transact { raw_tx, enc, tail } => {
                    let d = match enc {
                        Enc::Hex | Enc::Base64 | Enc::Base64Packed => match decode_raw(&raw_tx.0) {
                            Decoded::Undecodable => "DUndecodable".to_string(),
                            Decoded::WrongChain => "DWrongChain".to_string(),
                            Decoded::Signed(a, nn) => format!("(DSigned {} {})", addr_term(&a), nn),
                        },
                        _ => "DUndecodable".to_string(),
                    };
                    Some(format!("CRaw {} {} {} {} {}", d, idx_of(tail.tx_idx), tail.ts, hash_term(&tail.hash), valids(consumed, receipts)))
                }
                Op::Finalise { ts, hash, tx_count } => Some(format!("CFinalise {} {} {}", ts, hash_term(hash), idx_of(*tx_count))),
                Op::Mine { n, ts } => Some(format!("CMine {} {}", n, ts)),
                Op::Initialise { hash, ts, height } => Some(format!("CInit {} {} {}", hash_term(hash), ts, height)),
                Op::Commit => Some("CCommit".to_string()),
                Op::Clear | Op::Reorg(_) => {
                    // resynchronise what lives in the EVM state / the pool table: nonces and pool after the call
                    let (_, _, pool, _) = engine_probe(&mut run).map_err(|e| e.to_string())?;
                    let accs: Vec<Address> = accounts.iter().cloned().collect();
                    let nonces: Vec<String> = accs.iter().map(|a| { let n = nonce(&mut run, a); format!("({}, {})", addr_term(a), n) }).collect();
                    // kv must be in key order for kv_put/kv_get to agree: sort by address value
                    let mut nn: Vec<(Address, String)> = accs.iter().cloned().zip(nonces.into_iter()).collect();
                    nn.sort_by(|a, b| a.0.cmp(&b.0));
                    let nonces_t = format!("[{}]", nn.iter().map(|x| x.1.clone()).collect::<Vec<_>>().join("; "));
                    let pool_t = format!("[{}]", pool.iter().map(|(a, n, b)| format!("({}, {}, {})", addr_term(a), n, b)).collect::<Vec<_>>().join("; "));
                    match &resolved {
                        Op::Clear => {
                            let (next_now, _, _, genesis) = engine_probe(&mut run).map_err(|e| e.to_string())?;
                            let h_now = if next_now == 0 || !genesis && next_now <= 1 && blocks_of(&mut run, Some(0)).is_empty() { None } else { Some(next_now - 1) };
                            let _ = height_after;
                            let blocks = blocks_of(&mut run, h_now);
                            let hc = match h_now { Some(h) => format!("(Some {})", h), None => "None".into() };
                            Some(format!("CClear {} [{}] {} {}", hc, blocks.iter().map(|(n, h)| format!("({}, {})", n, hash_term(h))).collect::<Vec<_>>().join("; "), nonces_t, pool_t))
                        }
                        Op::Reorg(n) => Some(format!("CReorg {} {} {}", n, nonces_t, pool_t)),
                        _ => None,
                    }
                }
                _ => None,
            };
            let Some(call_term) = call_term else { continue };
            // C05 expectation table of the harness itself (the protocol oracle): must-reject calls
            if let (Some(reason), true) = (run.tracker.must_reject(&resolved), false) { let _ = reason; }
            let (next, waiting, pool, _) = match engine_probe(&mut run) { Ok(x) => x, Err(e) => { problem = Some(e); break; } };
            match &resolved {
                Op::Transact { raw_tx, enc: Enc::Hex | Enc::Base64 | Enc::Base64Packed, .. } if outp.status.is_ok() && receipts == 0 => {
                    if let Decoded::Signed(a, nn) = decode_raw(&raw_tx.0) { if nn > before && nn < before + 10 { last_parked.insert((a, nn), next); } }
                }
                Op::Clear | Op::Reorg(_) => { last_parked.clear(); for (a, n, b) in &pool { last_parked.insert((*a, *n), *b); } }
                _ => {}
            }
            // independent reference for nonce order (no model): the receipts one brc20_transact returns
            // are those of the incoming transaction and of the waiting ones drained behind it, so their
            // transactions carry CONSECUTIVE nonces (an expired or missing entry ends the drain)
            if let (Op::Transact { .. }, Value::Array(rs)) = (&resolved, &outp.result) {
                if rs.len() > 1 && problem.is_none() {
                    let mut ns: Vec<u64> = vec![];
                    for r in rs {
                        if let Some(hh) = r.get("transactionHash").and_then(|x| x.as_str()) {
                            if let Ok(t) = run.inst.rpc("eth_getTransactionByHash", json!([hh])) {
                                if let Some(n) = t.get("nonce").and_then(|x| x.as_str()).and_then(|x| u64::from_str_radix(x.trim_start_matches("0x"), 16).ok()) { ns.push(n); }
                            }
                        }
                    }
                    if ns.len() == rs.len() && ns.windows(2).any(|w| w[1] != w[0] + 1) {
                        failures.push(json!({"what": format!("{}: one brc20_transact executed transactions with nonces {:?}: not consecutive (a waiting transaction ran although its predecessor did not)", prop, ns),
                            "case": {"history": run.history()}}));
                        problem = Some(String::new());
                    }
                }
            }
            prev_pool = pool.clone();
            // what the public pool methods list is exactly the pool table (which the model is compared with)
            if prop == "c08" && problem.is_none() {
                let table: BTreeSet<(Address, u64)> = pool.iter().map(|(a, n, _)| (*a, *n)).collect();
                let accs: BTreeSet<Address> = accounts.iter().cloned().chain(table.iter().map(|x| x.0)).collect();
                match rpc_pool(&mut run, &accs) {
                    Ok((all, from)) => {
                        n_pool_listings += 1;
                        let fmt = |s: &BTreeSet<(Address, u64)>| s.iter().map(|(a, n)| format!("(0x{}, {})", hex::encode(a.0), n)).collect::<Vec<_>>().join(" ");
                        if all != table || from != table {
                            failures.push(json!({"what": format!("c08: after {} the pending-pool table holds [{}] but txpool_content lists [{}] and txpool_contentFrom (over all accounts) lists [{}]", resolved.kind(), fmt(&table), fmt(&all), fmt(&from)),
                                "case": {"history": run.history()}}));
                            problem = Some(String::new());
                        }
                    }
                    Err(e) => { problem = Some(e); break; }
                }
            }
            for (a, n, b) in &pool {
                if let Some(want) = last_parked.get(&(*a, *n)) {
                    if want != b && problem.is_none() {
                        failures.push(json!({"what": format!("{}: the waiting transaction (0x{}, nonce {}) was inscribed (again) in block {} but the pool counts its window from block {}", prop, hex::encode(a.0), n, want, b),
                            "case": {"history": run.history()}}));
                        problem = Some(String::new());
                    }
                }
            }
            if out_term == "OPanic" { problem = Some("panic".into()); out_term = "OPanic".into(); }
            // independent reference (no model): a call that is answered with an error wrote nothing, neither to
            // the caches nor to the disk
            if out_term == "ORejected" && outp.events.iter().any(crate::sim::is_mutation) && problem.is_none() {
                let w: Vec<String> = outp.events.iter().filter(|e| crate::sim::is_mutation(e)).take(4).map(crate::sim::ev_string).collect();
                failures.push(json!({"what": format!("{}: the rejected call {} wrote to the database: {}", prop, resolved.kind(), w.join("; ")), "case": {"history": run.history()}}));
                problem = Some(String::new());
            }
            // the store operations recorded while this call was served (shape check: Model/Allowed.v)
            {
                let mut t = crate::trace::Tracer::new();
                t.absorb(&resolved, &outp);
                let sops: Vec<String> = t.items.iter().filter_map(|it| it.strip_prefix("IOp (").and_then(|x| x.strip_suffix(")")).map(|x| x.to_string())).collect();
                n_sops += sops.len() as u64;
                acalls.push(format!("(({}), [{}])", call_term, sops.join("; ")));
            }
            calls.push(format!("(({}), {{| ep_out := {}; ep_next := {}; ep_wait := {}; ep_pool := [{}] |}})",
                call_term, out_term, next, waiting,
                pool.iter().map(|(a, n, b)| format!("({}, {}, {})", addr_term(a), n, b)).collect::<Vec<_>>().join("; ")));
            *dist.entry(format!("{}:{}", resolved.kind(), if outp.status.is_ok() { "ok" } else { "rejected" })).or_default() += 1;
            n_calls += 1;
            if run.tracker.desynced { break; }
        }
        if let Some(pb) = problem { if !pb.is_empty() { failures.push(json!({"what": format!("{}: {}", prop, pb), "case": {"history": h}})); } }
        terms.push(format!("{{| ec_id := {}; ec_calls := [\n  {}\n] |}}", i, calls.join(";\n  ")));
        aterms.push(format!("{{| ac_id := {}; ac_hist := [\n  {}\n] |}}", i, acalls.join(";\n  ")));
        jsonl.push_str(&json!({"id": i, "history": h}).to_string()); jsonl.push('\n');
        if samples.is_empty() { samples.push(json!({"history_ops": h.iter().map(|o| o.kind()).collect::<Vec<_>>(), "first_calls": calls.iter().take(6).collect::<Vec<_>>()})); }
    }
    // implementation-level search
    let exe = std::env::current_exe()?;
    let dir = out.join("search");
    let _ = std::fs::create_dir_all(&dir);
    let sprop = if prop == "c08" { "c05" } else { prop };
    let _ = std::process::Command::new(exe).args(["simcheck", "--out", dir.to_str().unwrap(), "--seed", &seed.to_string(), "--tier", if thorough { "thorough" } else { "quick" }, "--only", sprop])
        .stdout(std::process::Stdio::null()).stderr(std::process::Stdio::null()).status();
    let mut search_eval = 0u64;
    if let Ok(txt) = std::fs::read_to_string(dir.join(format!("simcheck_{}.json", sprop))) {
        if let Ok(v) = serde_json::from_str::<Value>(&txt) {
            search_eval = v["evaluations"].as_u64().unwrap_or(0);
            for f in v["failures"].as_array().cloned().unwrap_or_default() {
                failures.push(json!({"what": format!("{} :: {}", f["signature"].as_str().unwrap_or(""), f["what"].as_str().unwrap_or("")),
                    "case": {"history": f["history"], "first_difference": f["first_difference"]}}));
            }
        }
    } else { failures.push(json!({"what": "simcheck search produced no result file", "case": {}})); }
    let imports = "From Brc.Model Require Import Base Table Engine Tie05.\nFrom BrcGen Require Import Consts.";
    let files = cf::write_shards(out, &format!("{}_e", prop), imports, "ecase",
        "bad_ecases W MAX_FUTURE_TRANSACTION_NONCES MAX_FUTURE_TRANSACTION_BLOCKS INDEXER_ADDRESS", &terms, 16)?;
    let aimports = "From Brc.Model Require Import Base Table Store Engine EngineStore Allowed TieAllowed.\nFrom BrcGen Require Import Consts.";
    let afiles = cf::write_shards(out, &format!("{}_a", prop), aimports, "acase",
        "bad_acases W MAX_FUTURE_TRANSACTION_NONCES MAX_FUTURE_TRANSACTION_BLOCKS INDEXER_ADDRESS", &aterms, 16)?;
    let mut files = files; files.extend(afiles);
    // C08: the oracle hypotheses of the global theorems (revm's nonce rule per transact; nonces and pool
    // re-read after clear / reorg agree with the truncated execution log, pool entries distinct, not
    // parked above the next block, not already expired) evaluated by Coq along every recorded history
    // (Model/TieNonce.v); an id printed = a history on which a hypothesis fails
    if prop == "c08" {
        let nimports = "From Brc.Model Require Import Base Table Engine EngineRun Tie05 TieNonce.\nFrom BrcGen Require Import Consts.";
        let nfiles = cf::write_shards(out, &format!("{}_n", prop), nimports, "ecase",
            "bad_nonce_cases W MAX_FUTURE_TRANSACTION_NONCES MAX_FUTURE_TRANSACTION_BLOCKS INDEXER_ADDRESS", &terms, 16)?;
        files.extend(nfiles);
    }
    std::fs::write(out.join(format!("{}_cases.jsonl", prop)), jsonl)?;
    let meta = json!({
        "files": files,
        "protocol_shape_cases": aterms.len(), "store_ops_in_protocol_shape_cases": n_sops, "public_pool_listings_compared_with_the_table": n_pool_listings,
        "evaluations": terms.len() as u64 + search_eval,
        "distinct_nontrivial": terms.len(),
        "rule": "histories from the structured generator run on the real engine behind the real RPC table (C05: with out-of-protocol calls injected at arbitrary positions incl. mid-block: wrong tx_idx, timestamp / hash differing from the open block, finalise with a wrong count, existing hash, commit / reorg / mine with an open block, both or neither encodings, undecodable raw transactions; C08: pool-edge scripts: park k+1, k+2 ..., deliver k at 9 / 10 / 11 blocks, replacements, stale, far-future, wrong chain). Each indexer call becomes a model call with the oracles' answers; after each call the answer class (rejected / ok with k receipts), next height, open-block count and pool are compared with Model/Engine.v. All histories are distinct PRNG draws. In addition the implementation-level search simcheck c05 (history with rejected calls vs without: same statuses and observations; every protocol violation rejected; no store mutation during a rejected call).",
        "nonce_hypothesis_cases": if prop == "c08" { terms.len() } else { 0 },
        "calls": n_calls, "call_distribution": dist, "search_evaluations": search_eval,
        "samples": samples, "impl_failures": failures,
    });
    std::fs::write(out.join(format!("{}_meta.json", prop)), serde_json::to_string_pretty(&meta)?)?;
    Ok(())
}
