//! C14 component tie: drives the real `Encode`/`Decode` implementations of every persisted
//! type (and serde for the API types), writes the cases for the Coq model (Model/Codec.v,
//! checked by Model/Tie14.v), and checks the property on the implementation alone:
//! decode(encode(x)) == x with the exact offset (also inside a larger buffer), byte order of
//! encoded keys == order of the values, JSON -> value -> JSON is the identity.
use std::cmp::Ordering;
use std::collections::{BTreeMap, HashMap};
use std::fmt::Debug;
use std::panic::{catch_unwind, AssertUnwindSafe};
use std::path::Path;

use alloy::primitives::{Bytes, Uint, U256};
use brc20_prog::verif_hooks::{
    AccountInfoED, AddressED, Base64Bytes, BlockHistoryCache, BlockHistoryCacheData, BlockResponseED,
    BytecodeED, BytesED, Decode, Encode, EthCall, FixedBytesED, GetLogsFilter, LogED, PrecompileData,
    RawBlock, RawBytes, TraceED, TxED, TxReceiptED, UintED, B2048ED, B256ED, CONFIG, GAS_PER_BYTE,
    MAX_BLOCK_SIZE, U128ED, U256ED, U512ED, U64ED, U8ED,
};
use either::Either;
use revm::bytecode::Bytecode;
use serde::de::DeserializeOwned;
use serde::Serialize;
use serde_json::{json, Value};

use crate::coqfmt as cf;
use crate::rng::Rng;

// ---------------------------------------------------------------------------------------
// printing of model values

pub trait M: Encode + Decode + Sized + Clone + PartialEq + Debug {
    fn coq(&self) -> String;
}

fn big<const B: usize, const L: usize>(u: &Uint<B, L>) -> String { format!("{}", u) }

impl<const B: usize, const L: usize> M for UintED<B, L> {
    fn coq(&self) -> String { big(&self.uint) }
}
impl M for u64 { fn coq(&self) -> String { format!("{}", self) } }
impl M for u32 { fn coq(&self) -> String { format!("{}", self) } }
impl M for u8 { fn coq(&self) -> String { format!("{}", self) } }
impl M for AddressED { fn coq(&self) -> String { cf::bytes(self.address.as_slice()) } }
impl<const N: usize> M for FixedBytesED<N> { fn coq(&self) -> String { cf::bytes(self.bytes.as_slice()) } }
impl M for BytesED { fn coq(&self) -> String { cf::bytes(&self.bytes) } }
impl M for BytecodeED { fn coq(&self) -> String { cf::bytes(self.bytecode.original_byte_slice()) } }
impl M for String { fn coq(&self) -> String { cf::bytes(self.as_bytes()) } }
impl<T: M> M for Option<T> { fn coq(&self) -> String { cf::opt(self, |x| x.coq()) } }
impl<T: M> M for Vec<T> { fn coq(&self) -> String { cf::list(self, |x| x.coq()) } }
impl<A: M, B: M> M for (A, B) { fn coq(&self) -> String { cf::pair(self.0.coq(), self.1.coq()) } }

impl M for AccountInfoED {
    fn coq(&self) -> String {
        format!("{{| a_balance := {}; a_nonce := {}; a_code_hash := {} |}}", self.balance.coq(), self.nonce.coq(), self.code_hash.coq())
    }
}
impl M for LogED {
    fn coq(&self) -> String {
        format!(
            "{{| l_address := {}; l_topics := {}; l_data := {}; l_tx_index := {}; l_tx_hash := {}; l_block_hash := {}; l_block_number := {}; l_log_index := {} |}}",
            self.address.coq(), self.topics.coq(), self.data.coq(), self.transaction_index.coq(), self.transaction_hash.coq(),
            self.block_hash.coq(), self.block_number.coq(), self.log_index.coq()
        )
    }
}
impl M for TxED {
    fn coq(&self) -> String {
        format!(
            "{{| x_hash := {}; x_nonce := {}; x_block_hash := {}; x_block_number := {}; x_tx_index := {}; x_from := {}; x_to := {}; x_value := {}; x_gas := {}; x_gas_price := {}; x_input := {}; x_v := {}; x_r := {}; x_s := {}; x_chain_id := {}; x_type := {}; x_inscription_id := {} |}}",
            self.hash.coq(), self.nonce.coq(), self.block_hash.coq(), self.block_number.coq(), self.transaction_index.coq(),
            self.from.coq(), self.to.coq(), self.value.coq(), self.gas.coq(), self.gas_price.coq(), self.input.coq(),
            self.v.coq(), self.r.coq(), self.s.coq(), self.chain_id.coq(), self.tx_type.coq(), self.inscription_id.coq()
        )
    }
}
impl M for TxReceiptED {
    fn coq(&self) -> String {
        format!(
            "{{| r_status := {}; r_logs := {}; r_gas_used := {}; r_from := {}; r_to := {}; r_contract_address := {}; r_logs_bloom := {}; r_block_hash := {}; r_block_number := {}; r_tx_hash := {}; r_tx_index := {}; r_cumulative_gas_used := {}; r_effective_gas_price := {}; r_type := {} |}}",
            self.status.coq(), self.logs.coq(), self.gas_used.coq(), self.from.coq(), self.to.coq(), self.contract_address.coq(),
            self.logs_bloom.coq(), self.block_hash.coq(), self.block_number.coq(), self.transaction_hash.coq(),
            self.transaction_index.coq(), self.cumulative_gas_used.coq(), self.effective_gas_price.coq(), self.transaction_type.coq()
        )
    }
}
fn block_rest_default(b: &BlockResponseED) -> bool {
    let z32: B256ED = [0u8; 32].into();
    b.base_fee_per_gas == 0u64.into() && b.uncles.is_empty() && b.withdrawals.is_empty() && b.withdrawals_root == z32
        && b.parent_beacon_block_root == z32 && b.sha3_uncles == z32 && b.state_root == z32
        && b.miner == AddressED::from([0u8; 20]) && b.mix_hash == z32 && b.excess_blob_gas == 0u64.into()
        && b.extra_data == z32 && b.blob_gas_used == 0u64.into()
}
impl M for BlockResponseED {
    fn coq(&self) -> String {
        let txs = match &self.transactions { Either::Left(h) => format!("(Some {})", h.coq()), Either::Right(_) => "None".to_string() };
        format!(
            "{{| b_difficulty := {}; b_gas_limit := {}; b_gas_used := {}; b_hash := {}; b_logs_bloom := {}; b_nonce := {}; b_number := {}; b_timestamp := {}; b_mine_timestamp := {}; b_transactions := {}; b_transactions_root := {}; b_total_difficulty := {}; b_parent_hash := {}; b_receipts_root := {}; b_size := {}; b_rest_default := {} |}}",
            self.difficulty.coq(), self.gas_limit.coq(), self.gas_used.coq(), self.hash.coq(), self.logs_bloom.coq(), self.nonce.coq(),
            self.number.coq(), self.timestamp.coq(), self.mine_timestamp.coq(), txs, self.transactions_root.coq(),
            self.total_difficulty.coq(), self.parent_hash.coq(), self.receipts_root.coq(), self.size.coq(), cf::boolean(block_rest_default(self))
        )
    }
}
impl M for TraceED {
    fn coq(&self) -> String {
        format!(
            "(Trace {} {} {} {} {} {} {} {} {} {} {})",
            self.tx_type.coq(), self.from.coq(), self.to.coq(), self.calls.coq(), self.gas.coq(), self.gas_used.coq(),
            self.input.coq(), self.output.coq(), self.value.coq(), self.error.coq(), self.revert_reason.coq()
        )
    }
}

// ---------------------------------------------------------------------------------------
// generators

const B64: [u64; 13] = [0, 1, 2, 255, 256, 65535, 65536, (1 << 32) - 1, 1 << 32, (1 << 32) + 1, (1 << 63) - 1, 1 << 63, u64::MAX];
const SIZES: [usize; 14] = [0, 1, 2, 19, 20, 31, 32, 33, 55, 56, 255, 256, 257, 1000];

fn g_u64(r: &mut Rng) -> u64 {
    match r.below(4) { 0 | 1 => *r.pick(&B64), 2 => r.below(1000), _ => r.next() }
}
fn g_limbs<const L: usize>(r: &mut Rng) -> [u64; L] {
    let mut l = [0u64; L];
    match r.below(6) {
        0 => {}
        1 => { for x in l.iter_mut() { *x = u64::MAX; } }
        2 => { l[0] = g_u64(r); }
        3 => { let i = r.below(L as u64) as usize; l[i] = *r.pick(&[1u64, 1 << 63, u64::MAX]); }
        4 => { let i = r.below(L as u64) as usize; for (j, x) in l.iter_mut().enumerate() { if j < i { *x = u64::MAX; } } }
        _ => { for x in l.iter_mut() { *x = r.next(); } }
    }
    l
}
fn g_u128(r: &mut Rng) -> U128ED { UintED::new(Uint::from_limbs(g_limbs::<2>(r))) }
fn g_u256(r: &mut Rng) -> U256ED { UintED::new(Uint::from_limbs(g_limbs::<4>(r))) }
fn g_u512(r: &mut Rng) -> U512ED { UintED::new(Uint::from_limbs(g_limbs::<8>(r))) }
fn g_u8ed(r: &mut Rng) -> U8ED { (*r.pick(&[0u8, 1, 2, 27, 28, 127, 128, 254, 255])).into() }
fn g_u64ed(r: &mut Rng) -> U64ED { g_u64(r).into() }
fn g_fixed<const N: usize>(r: &mut Rng) -> [u8; N] {
    let mut a = [0u8; N];
    match r.below(6) {
        0 => {}
        1 => { a = [0xFF; N]; }
        2 => { a[N - 1] = 1; }
        3 => { a[0] = *r.pick(&[1u8, 0x80, 0xFF]); }
        4 => { let i = r.below(N as u64) as usize; a[i] = (r.next() & 0xFF) as u8; }
        _ => { for x in a.iter_mut() { *x = (r.next() & 0xFF) as u8; } }
    }
    a
}
fn g_addr(r: &mut Rng) -> AddressED { g_fixed::<20>(r).into() }
fn g_b256(r: &mut Rng) -> B256ED { g_fixed::<32>(r).into() }
fn g_bloom(r: &mut Rng) -> B2048ED { g_fixed::<256>(r).into() }
fn g_vec_u8(r: &mut Rng, big: usize) -> Vec<u8> {
    let n = match r.below(8) { 0 => 0, 1..=5 => *r.pick(&SIZES), 6 => r.below(300) as usize, _ => big };
    let mode = r.below(4);
    (0..n).map(|i| match mode { 0 => 0, 1 => 0xFF, 2 => (i & 0xFF) as u8, _ => (r.next() & 0xFF) as u8 }).collect()
}
/// byte strings embedded in records: mostly short (the dedicated "bytes" run covers the long ones)
fn g_bytes(r: &mut Rng) -> BytesED {
    let n = match r.below(10) { 0 | 1 => 0, 2..=7 => *r.pick(&[1usize, 2, 4, 19, 20, 31, 32, 33, 36, 55, 56, 68]), 8 => r.below(120) as usize, _ => *r.pick(&[255usize, 256, 257, 300]) };
    let mode = r.below(3);
    (0..n).map(|i| match mode { 0 => 0u8, 1 => (i & 0xFF) as u8, _ => (r.next() & 0xFF) as u8 }).collect::<Vec<u8>>().into()
}
const STRINGS: [&str; 16] = [
    "", "a", "call", "CALL", "create", "execution reverted", "0123456789abcdefi0",
    "\u{7f}", "\u{80}", "\u{7ff}", "\u{800}", "\u{d7ff}\u{e000}", "\u{ffff}", "\u{10000}", "\u{10ffff}", "h\u{e9}llo \u{4e2d}\u{6587} \u{1f600}\u{0}z",
];
fn g_string(r: &mut Rng) -> String {
    match r.below(5) {
        0..=2 => r.pick(&STRINGS).to_string(),
        3 => { let n = *r.pick(&[64usize, 66, 66, 66, 255, 256]); (0..n).map(|i| (b'a' + (i % 26) as u8) as char).collect() }
        _ => { let n = r.below(12); (0..n).map(|_| *r.pick(&['x', '\u{e9}', '\u{4e2d}', '\u{1f600}', '0', ' ', '\n'])).collect() }
    }
}
fn g_opt<T>(r: &mut Rng, f: impl Fn(&mut Rng) -> T) -> Option<T> { if r.chance(1, 2) { Some(f(r)) } else { None } }
fn g_vec<T>(r: &mut Rng, max: u64, f: impl Fn(&mut Rng) -> T) -> Vec<T> {
    let n = match r.below(4) { 0 => 0, 1 => 1, _ => r.below(max + 1) };
    (0..n).map(|_| f(r)).collect()
}
fn g_account(r: &mut Rng) -> AccountInfoED { AccountInfoED { balance: g_u256(r), nonce: g_u64ed(r), code_hash: g_b256(r) } }
fn g_bytecode(r: &mut Rng) -> BytecodeED {
    let raw = match r.below(6) {
        0 => vec![],
        1 => { let mut v = vec![0xEF, 0x01, 0x00]; v.extend_from_slice(&g_fixed::<20>(r)); v } // EIP-7702 delegation
        2 => vec![0xEF],
        3 => { let mut v = vec![0xEF, 0x00]; v.extend(g_vec_u8(r, 100)); v }
        4 => { let mut v = vec![0x60, 0x80, 0x60, 0x40, 0x52, 0x5b, 0x7f]; v.extend(g_vec_u8(r, 600)); v }
        _ => g_vec_u8(r, 2000),
    };
    BytecodeED { bytecode: Bytecode::new_raw_checked(Bytes::from(raw)).expect("generator makes valid bytecode") }
}
fn g_log(r: &mut Rng) -> LogED {
    LogED {
        address: g_addr(r), topics: g_vec(r, 4, g_b256), data: g_bytes(r), transaction_index: g_u64ed(r),
        transaction_hash: g_b256(r), block_hash: g_b256(r), block_number: g_u64ed(r), log_index: g_u64ed(r),
    }
}
fn chain_id() -> u64 { CONFIG.read().chain_id }
fn g_tx(r: &mut Rng, mask: u64) -> TxED {
    TxED {
        hash: g_b256(r), nonce: g_u64ed(r), block_hash: g_b256(r),
        block_number: if mask & 1 != 0 { Some(g_u64ed(r)) } else { None },
        transaction_index: if mask & 2 != 0 { Some(g_u64ed(r)) } else { None },
        from: g_addr(r),
        to: if mask & 4 != 0 { Some(g_addr(r)) } else { None },
        value: g_u64ed(r), gas: g_u64ed(r), gas_price: g_u64ed(r), input: g_bytes(r),
        v: g_u8ed(r), r: g_u256(r), s: g_u256(r),
        chain_id: chain_id().into(), tx_type: 0u8.into(),
        inscription_id: if mask & 8 != 0 { Some(g_string(r)) } else { None },
    }
}
fn g_receipt(r: &mut Rng, mask: u64) -> TxReceiptED {
    TxReceiptED {
        status: (*r.pick(&[0u8, 1, 1, 4, 255])).into(), logs: g_vec(r, 3, g_log), gas_used: g_u64ed(r), from: g_addr(r),
        to: if mask & 1 != 0 { Some(g_addr(r)) } else { None },
        contract_address: if mask & 2 != 0 { Some(g_addr(r)) } else { None },
        logs_bloom: g_bloom(r), block_hash: g_b256(r), block_number: g_u64ed(r), transaction_hash: g_b256(r),
        transaction_index: g_u64ed(r), cumulative_gas_used: g_u64ed(r),
        effective_gas_price: 0u64.into(), transaction_type: 0u8.into(),
    }
}
fn new_block(gas_used: U64ED, hash: B256ED, bloom: B2048ED, nonce: U64ED, number: U64ED, ts: U64ED, mine: U128ED,
             txs: Vec<B256ED>, root: B256ED, parent: B256ED) -> BlockResponseED {
    // BlockResponseED::new is crate-private; this is the same value (checked below against decode)
    let z32: B256ED = [0u8; 32].into();
    BlockResponseED {
        difficulty: 0u64.into(), gas_limit: (MAX_BLOCK_SIZE * GAS_PER_BYTE).into(), gas_used, hash, logs_bloom: bloom, nonce, number,
        timestamp: ts, mine_timestamp: mine, transactions: Either::Left(txs), base_fee_per_gas: 0u64.into(), transactions_root: root,
        uncles: vec![], withdrawals: vec![], withdrawals_root: z32, total_difficulty: 0u64.into(), parent_beacon_block_root: z32,
        parent_hash: parent, receipts_root: z32, sha3_uncles: z32, size: 0u64.into(), state_root: z32, miner: [0u8; 20].into(),
        mix_hash: z32, excess_blob_gas: 0u64.into(), extra_data: z32, blob_gas_used: 0u64.into(),
    }
}
fn g_block(r: &mut Rng, ntx: usize) -> BlockResponseED {
    new_block(g_u64ed(r), g_b256(r), g_bloom(r), g_u64ed(r), g_u64ed(r), g_u64ed(r), g_u128(r),
              (0..ntx).map(|_| g_b256(r)).collect(), g_b256(r), g_b256(r))
}
fn g_trace(r: &mut Rng, depth: u64, fan: u64, mask: u64) -> TraceED {
    let calls = if depth == 0 { vec![] } else { (0..fan).map(|i| { let m = r.below(8); g_trace(r, depth - 1, if i == 0 { fan } else { fan.min(1) }, m) }).collect() };
    TraceED {
        tx_type: r.pick(&["CALL", "call", "CREATE", "STATICCALL", "DELEGATECALL", ""]).to_string(), from: g_addr(r),
        to: if mask & 1 != 0 { Some(g_addr(r)) } else { None },
        calls, gas: g_u256(r), gas_used: g_u256(r), input: g_bytes(r), output: g_bytes(r), value: g_u256(r),
        error: if mask & 2 != 0 { Some(g_string(r)) } else { None },
        revert_reason: if mask & 4 != 0 { Some(g_string(r)) } else { None },
    }
}

// ---------------------------------------------------------------------------------------
// running the implementation

#[derive(Clone, Debug, PartialEq)]
pub enum Outcome { Ok { end: usize, reenc: Vec<u8> }, Err, Panic }

fn try_decode<T: Decode + Encode>(buf: &[u8], off: usize) -> (Outcome, Option<T>) {
    match catch_unwind(AssertUnwindSafe(|| T::decode(buf, off))) {
        Ok(Ok((v, end))) => {
            let reenc = catch_unwind(AssertUnwindSafe(|| v.encode_vec())).unwrap_or_else(|_| vec![0xDE, 0xAD]);
            (Outcome::Ok { end, reenc }, Some(v))
        }
        Ok(Err(_)) => (Outcome::Err, None),
        Err(_) => (Outcome::Panic, None),
    }
}

// ---------------------------------------------------------------------------------------
// Derived (possibly corrupted) buffers are decoded in a child process: Vec::<T>::decode calls
// Vec::with_capacity(length) before reading anything, so a misread length prefix can ask for
// terabytes and abort the whole process (not a panic, nothing to catch).

fn probe_dispatch(stem: &str, buf: &[u8], off: usize) -> Outcome {
    type H<V> = BlockHistoryCacheData<V>;
    match stem {
        "u8" => try_decode::<u8>(buf, off).0,
        "u32" => try_decode::<u32>(buf, off).0,
        "u64" => try_decode::<u64>(buf, off).0,
        "U8" => try_decode::<U8ED>(buf, off).0,
        "U64" => try_decode::<U64ED>(buf, off).0,
        "U128" => try_decode::<U128ED>(buf, off).0,
        "U256" => try_decode::<U256ED>(buf, off).0,
        "U512" => try_decode::<U512ED>(buf, off).0,
        "addr" => try_decode::<AddressED>(buf, off).0,
        "b256" => try_decode::<B256ED>(buf, off).0,
        "bloom" => try_decode::<B2048ED>(buf, off).0,
        "bytes" => try_decode::<BytesED>(buf, off).0,
        "vecu8" => try_decode::<Vec<u8>>(buf, off).0,
        "string" => try_decode::<String>(buf, off).0,
        "optU64" => try_decode::<Option<U64ED>>(buf, off).0,
        "optaddr" => try_decode::<Option<AddressED>>(buf, off).0,
        "optstring" => try_decode::<Option<String>>(buf, off).0,
        "optbytes" => try_decode::<Option<BytesED>>(buf, off).0,
        "vecb256" => try_decode::<Vec<B256ED>>(buf, off).0,
        "vecoptstring" => try_decode::<Vec<Option<String>>>(buf, off).0,
        "addrnonce" => try_decode::<(AddressED, U64ED)>(buf, off).0,
        "nested" => try_decode::<(String, (Option<U256ED>, Vec<u8>))>(buf, off).0,
        "account" => try_decode::<AccountInfoED>(buf, off).0,
        "bytecode" => try_decode::<BytecodeED>(buf, off).0,
        "log" => try_decode::<LogED>(buf, off).0,
        "tx" => try_decode::<TxED>(buf, off).0,
        "receipt" => try_decode::<TxReceiptED>(buf, off).0,
        "block" => try_decode::<BlockResponseED>(buf, off).0,
        "trace" => try_decode::<TraceED>(buf, off).0,
        "concat" => try_decode::<(TxED, (TxReceiptED, TraceED))>(buf, off).0,
        "histU64" => try_decode::<H<U64ED>>(buf, off).0,
        "histaccount" => try_decode::<H<AccountInfoED>>(buf, off).0,
        "histb256" => try_decode::<H<B256ED>>(buf, off).0,
        "histU256" => try_decode::<H<U256ED>>(buf, off).0,
        "histstring" => try_decode::<H<String>>(buf, off).0,
        "histbytecode" => try_decode::<H<BytecodeED>>(buf, off).0,
        "histtx" => try_decode::<H<TxED>>(buf, off).0,
        "histreceipt" => try_decode::<H<TxReceiptED>>(buf, off).0,
        "histtrace" => try_decode::<H<TraceED>>(buf, off).0,
        "rawblock" => try_decode::<RawBlock>(buf, off).0,
        _ => panic!("c14-probe: unknown type {}", stem),
    }
}

/// `hx c14-probe`: one request per line "<type> <offset> <hex>", one answer per line.
pub fn probe_main() -> Result<(), Box<dyn std::error::Error>> {
    use std::io::{BufRead, Write};
    std::panic::set_hook(Box::new(|_| {}));
    let stdin = std::io::stdin();
    let mut out = std::io::stdout();
    for line in stdin.lock().lines() {
        let line = line?;
        let mut it = line.split(' ');
        let stem = it.next().unwrap_or("");
        let off: usize = it.next().unwrap_or("0").parse()?;
        let buf = hex::decode(it.next().unwrap_or(""))?;
        match probe_dispatch(stem, &buf, off) {
            Outcome::Ok { end, reenc } => writeln!(out, "0 {} {}", end, hex::encode(reenc))?,
            Outcome::Err => writeln!(out, "1")?,
            Outcome::Panic => writeln!(out, "2")?,
        }
        out.flush()?;
    }
    Ok(())
}

struct Prober { child: std::process::Child, stdin: std::process::ChildStdin, stdout: std::io::BufReader<std::process::ChildStdout> }
impl Prober {
    fn spawn() -> Prober {
        let exe = std::env::current_exe().expect("current_exe");
        let mut child = std::process::Command::new("sh")
            .arg("-c").arg(format!("ulimit -v 4000000; exec '{}' c14-probe", exe.display()))
            .stdin(std::process::Stdio::piped()).stdout(std::process::Stdio::piped()).stderr(std::process::Stdio::null())
            .spawn().expect("spawn c14-probe");
        let stdin = child.stdin.take().unwrap();
        let stdout = std::io::BufReader::new(child.stdout.take().unwrap());
        Prober { child, stdin, stdout }
    }
    /// None: the decoder took the process down (allocation failure).
    fn probe(&mut self, stem: &str, buf: &[u8], off: usize) -> Option<Outcome> {
        use std::io::{BufRead, Write};
        let sent = writeln!(self.stdin, "{} {} {}", stem, off, hex::encode(buf)).and_then(|_| self.stdin.flush());
        let mut line = String::new();
        let got = if sent.is_ok() { self.stdout.read_line(&mut line).unwrap_or(0) } else { 0 };
        if got == 0 {
            let _ = self.child.kill(); let _ = self.child.wait();
            *self = Prober::spawn();
            return None;
        }
        let mut it = line.trim().split(' ');
        match it.next() {
            Some("0") => { let end = it.next()?.parse().ok()?; let reenc = hex::decode(it.next().unwrap_or("")).ok()?; Some(Outcome::Ok { end, reenc }) }
            Some("1") => Some(Outcome::Err),
            Some("2") => Some(Outcome::Panic),
            _ => None,
        }
    }
}
impl Drop for Prober { fn drop(&mut self) { let _ = self.child.kill(); let _ = self.child.wait(); } }

struct Ctx {
    rng: Rng,
    out: std::path::PathBuf,
    files: Vec<String>,
    failures: Vec<Value>,
    jsonl: String,
    evals: u64,
    distinct: std::collections::HashSet<Vec<u8>>,
    per_type: BTreeMap<String, BTreeMap<String, u64>>,
    outcomes: BTreeMap<&'static str, u64>,
    next_base: u64,
    samples: Vec<Value>,
    thorough: bool,
    prober: Prober,
    aborts: Vec<Value>,
    n_aborts: u64,
}

impl Ctx {
    fn count(&mut self, ty: &str, what: &str, n: u64) { *self.per_type.entry(ty.to_string()).or_default().entry(what.to_string()).or_default() += n; }
    fn fail(&mut self, what: String, case: Value) { if self.failures.len() < 200 { self.failures.push(json!({"what": what, "case": case})); } }
    fn base(&mut self) -> u64 { self.next_base += 1_000_000; self.next_base }
    /// Decode a derived buffer in the child; records an abort and returns None if the process died.
    fn probe(&mut self, stem: &str, buf: &[u8], off: usize) -> Option<Outcome> {
        match self.prober.probe(stem, buf, off) {
            Some(o) => {
                *self.outcomes.entry(match o { Outcome::Ok { .. } => "decode_ok", Outcome::Err => "decode_err", Outcome::Panic => "decode_panic" }).or_default() += 1;
                Some(o)
            }
            None => {
                self.n_aborts += 1;
                *self.outcomes.entry("process_abort_on_allocation").or_default() += 1;
                if self.aborts.len() < 5 { self.aborts.push(json!({"type": stem, "offset": off, "hex": hex::encode(buf).chars().take(3000).collect::<String>()})); }
                None
            }
        }
    }
}

const IMPORTS: &str = "From Brc.Model Require Import Base History Codec Tie14.\nFrom BrcGen Require Import Consts.";

fn mcase_term(id: u64, buf: &[u8], off: usize, o: &Outcome) -> String {
    let (code, end, reenc): (u64, usize, &[u8]) = match o { Outcome::Ok { end, reenc } => (0, *end, reenc), Outcome::Err => (1, 0, &[]), Outcome::Panic => (2, 0, &[]) };
    format!("{{| mc_id := {}; mc_bytes := {}; mc_off := {}; mc_out := {}; mc_end := {}; mc_reenc := {} |}}", id, cf::bytes(buf), off, code, end, cf::bytes(reenc))
}

/// Buffers derived from a valid encoding: truncations, single-byte changes of non-zero bytes
/// (so that a length prefix can never become huge: Vec::decode allocates length * size_of::<T>()
/// up front and a misread length of 2^32-1 aborts the process), an offset past the end.
fn derived_buffers(r: &mut Rng, enc: &[u8], n_trunc: usize, n_mut: usize) -> Vec<(Vec<u8>, usize)> {
    let mut out = Vec::new();
    let len = enc.len();
    if len > 12_000 { return out; }
    // the case files carry every buffer in full: fewer derived buffers for long encodings
    let (n_trunc, n_mut, fixed_cuts) = if len <= 300 { (n_trunc, n_mut, true) } else if len <= 1500 { (1, 2, false) } else { (1, 1, false) };
    let mut cuts: Vec<usize> = if fixed_cuts { vec![0, 1, len.saturating_sub(1), len / 2] } else { vec![len.saturating_sub(1)] };
    for _ in 0..n_trunc { cuts.push(r.below(len as u64 + 1) as usize); }
    cuts.sort(); cuts.dedup();
    for c in cuts { if c < len { out.push((enc[..c].to_vec(), 0)); } }
    let nz: Vec<usize> = (0..len).filter(|i| enc[*i] != 0).collect();
    for _ in 0..n_mut {
        if nz.is_empty() { break; }
        let p = *r.pick(&nz);
        let mut b = enc.to_vec();
        b[p] ^= *r.pick(&[1u8, 2, 3, 0x80, 0xFF]);
        out.push((b, 0));
    }
    if fixed_cuts {
        out.push((enc.to_vec(), len));
        out.push((enc.to_vec(), len + 1 + r.below(5) as usize));
    }
    if len > 2 { out.push((enc.to_vec(), 1 + r.below(len as u64 - 1) as usize)); }
    out
}

/// Values of one type: emits value cases and derived malformed cases; checks the property on
/// the implementation.
/// round trip, consumed length and self-delimitation of one large value, on the implementation alone
fn big_roundtrip<T: Encode + Decode + PartialEq>(cx: &mut Ctx, stem: &str, v: &T, len: usize) {
    let enc = match catch_unwind(AssertUnwindSafe(|| v.encode_vec())) { Ok(e) => e, Err(_) => { cx.fail(format!("{}: encode panicked on a value of {} elements", stem, len), json!({"type": stem, "elements": len})); return; } };
    let mut buf = vec![0x5Au8; 3]; buf.extend_from_slice(&enc); buf.extend_from_slice(&[1, 2, 3, 4]);
    for (b, off) in [(&enc, 0usize), (&buf, 3usize)] {
        let (o, d) = try_decode::<T>(b, off);
        cx.evals += 1;
        match (&o, &d) {
            (Outcome::Ok { end, .. }, Some(d)) if d == v && *end == off + enc.len() => {}
            _ => { cx.fail(format!("{}: a value of {} elements does not survive encode/decode (decode(encode(x)) != x, or decode consumed another number of bytes than encode produced)", stem, len), json!({"type": stem, "elements": len, "encoded_bytes": enc.len(), "offset": off, "outcome": format!("{:?}", o).chars().take(120).collect::<String>()})); }
        }
    }
}

fn run_type<T: M>(cx: &mut Ctx, stem: &str, coq_ty: &str, codec: &str, eqb: &str, vals: Vec<T>, extra_bufs: Vec<(Vec<u8>, usize)>) {
    let base = cx.base();
    let mut vterms = Vec::new();
    let mut mterms = Vec::new();
    let (n_trunc, n_mut, every) = if cx.thorough { (8, 10, 1) } else { (3, 4, 3) };
    let mut mid = base + 500_000;
    let mut handle_buf = |cx: &mut Ctx, mterms: &mut Vec<String>, buf: Vec<u8>, off: usize| {
        let Some(o) = cx.probe(stem, &buf, off) else { return; };
        mterms.push(mcase_term(mid, &buf, off, &o));
        cx.jsonl.push_str(&json!({"id": mid, "type": stem, "kind": "buffer", "hex": hex::encode(&buf), "offset": off, "outcome": format!("{:?}", o).chars().take(60).collect::<String>()}).to_string());
        cx.jsonl.push('\n');
        mid += 1;
        cx.evals += 1;
    };
    for (i, v) in vals.iter().enumerate() {
        let id = base + i as u64;
        let enc = match catch_unwind(AssertUnwindSafe(|| v.encode_vec())) {
            Ok(e) => e,
            Err(_) => { cx.fail(format!("{}: encode panicked on a well-formed value", stem), json!({"id": id, "type": stem, "value": format!("{:?}", v)})); continue; }
        };
        let pre: Vec<u8> = (0..cx.rng.below(9)).map(|_| (cx.rng.next() & 0xFF) as u8).collect();
        let rest: Vec<u8> = (0..cx.rng.below(9)).map(|_| (cx.rng.next() & 0xFF) as u8).collect();
        let mut buf = pre.clone(); buf.extend_from_slice(&enc); buf.extend_from_slice(&rest);
        // the property, on the implementation alone
        let (o1, v1) = try_decode::<T>(&enc, 0);
        let (o2, v2) = try_decode::<T>(&buf, pre.len());
        let short = || json!({"id": id, "type": stem, "value": format!("{:?}", v).chars().take(2000).collect::<String>(), "encoded_hex": hex::encode(&enc).chars().take(4000).collect::<String>()});
        match (&o1, &v1) {
            (Outcome::Ok { end, .. }, Some(d)) => {
                if d != v { cx.fail(format!("{}: decode(encode(x)) != x", stem), short()); }
                else if *end != enc.len() { cx.fail(format!("{}: decode consumed {} of the {} bytes encode produced", stem, end, enc.len()), short()); }
            }
            _ => cx.fail(format!("{}: decode(encode(x)) is {:?}", stem, o1), short()),
        }
        match (&o2, &v2) {
            (Outcome::Ok { end, .. }, Some(d)) => {
                if d != v || *end != pre.len() + enc.len() { cx.fail(format!("{}: not self-delimiting: decode inside a larger buffer at offset {} gives a different value or end {} (expected {})", stem, pre.len(), end, pre.len() + enc.len()), short()); }
            }
            _ => cx.fail(format!("{}: decode inside a larger buffer is {:?}", stem, o2), short()),
        }
        vterms.push(format!("{{| vc_id := {}; vc_val := {}; vc_bytes := {}; vc_pre := {}; vc_rest := {} |}}", id, v.coq(), cf::bytes(&enc), cf::bytes(&pre), cf::bytes(&rest)));
        cx.jsonl.push_str(&json!({"id": id, "type": stem, "kind": "value", "hex": hex::encode(&enc).chars().take(4000).collect::<String>()}).to_string());
        cx.jsonl.push('\n');
        cx.evals += 1;
        if enc.len() > 1 { let mut k = stem.as_bytes().to_vec(); k.extend_from_slice(&enc); cx.distinct.insert(k); }
        if i == 1 && cx.samples.len() < 12 { cx.samples.push(json!({"type": stem, "value": format!("{:?}", v).chars().take(600).collect::<String>(), "encoded_hex": hex::encode(&enc).chars().take(600).collect::<String>()})); }
        if i % every == 0 {
            let mut rr = cx.rng.fork();
            for (b, off) in derived_buffers(&mut rr, &enc, n_trunc, n_mut) { handle_buf(cx, &mut mterms, b, off); }
        }
    }
    for (b, off) in extra_bufs { handle_buf(cx, &mut mterms, b, off); }
    cx.count(stem, "values", vterms.len() as u64);
    cx.count(stem, "buffers", mterms.len() as u64);
    let shards_v = (vterms.iter().map(|t| t.len()).sum::<usize>() / 150_000).max(1);
    let f = cf::write_shards(&cx.out, &format!("c14_v_{}", stem), IMPORTS, &format!("(vcase {})", coq_ty), &format!("bad_vcases {} {}", codec, eqb), &vterms, shards_v).expect("write");
    cx.files.extend(f);
    if !mterms.is_empty() {
        let shards_m = (mterms.iter().map(|t| t.len()).sum::<usize>() / 150_000).max(1);
        let f = cf::write_shards(&cx.out, &format!("c14_m_{}", stem), IMPORTS, "mcase", &format!("bad_mcases {}", codec), &mterms, shards_m).expect("write");
        cx.files.extend(f);
    }
}

fn ord_code(o: Ordering) -> u64 { match o { Ordering::Less => 0, Ordering::Equal => 1, Ordering::Greater => 2 } }

/// Key pairs: byte order of the encodings vs order of the values (implementation), both
/// also compared with the model.
fn run_order<T: M>(cx: &mut Ctx, stem: &str, coq_ty: &str, codec: &str, vcmp: &str, pairs: Vec<(T, T)>, cmp: impl Fn(&T, &T) -> Ordering, must_hold: bool) -> u64 {
    let base = cx.base();
    let mut terms = Vec::new();
    let mut violations = 0u64;
    for (i, (a, b)) in pairs.iter().enumerate() {
        let id = base + i as u64;
        let (ea, eb) = (a.encode_vec(), b.encode_vec());
        let bo = ea.cmp(&eb);
        let vo = cmp(a, b);
        if bo != vo {
            violations += 1;
            if must_hold { cx.fail(format!("{}: encoded keys compare {:?} but the values compare {:?}", stem, bo, vo), json!({"id": id, "type": stem, "a": format!("{:?}", a), "b": format!("{:?}", b), "enc_a": hex::encode(&ea), "enc_b": hex::encode(&eb)})); }
        }
        terms.push(format!("{{| oc_id := {}; oc_a := {}; oc_b := {}; oc_bytes_cmp := {}; oc_val_cmp := {} |}}", id, a.coq(), b.coq(), ord_code(bo), ord_code(vo)));
        cx.jsonl.push_str(&json!({"id": id, "type": stem, "kind": "order", "a": hex::encode(&ea), "b": hex::encode(&eb)}).to_string());
        cx.jsonl.push('\n');
        cx.evals += 1;
    }
    cx.count(stem, "key_pairs", terms.len() as u64);
    let shards = (terms.len() / 400).max(1);
    let f = cf::write_shards(&cx.out, &format!("c14_o_{}", stem), IMPORTS, &format!("(ocase {})", coq_ty), &format!("bad_ocases {} {}", codec, vcmp), &terms, shards).expect("write");
    cx.files.extend(f);
    violations
}

fn all_pairs<T: Clone>(xs: &[T]) -> Vec<(T, T)> {
    let mut out = Vec::new();
    for a in xs { for b in xs { out.push((a.clone(), b.clone())); } }
    out
}

// ---------------------------------------------------------------------------------------
// JSON

fn json_roundtrip<T: Serialize + DeserializeOwned>(cx: &mut Ctx, ty: &str, x: &T, text_level: bool) {
    cx.count(ty, "json_values", 1);
    let j1 = match serde_json::to_value(x) { Ok(j) => j, Err(e) => { cx.fail(format!("json {}: serialisation failed: {}", ty, e), json!({"type": ty})); return; } };
    let y: T = match serde_json::from_value(j1.clone()) {
        Ok(y) => y,
        Err(e) => { cx.fail(format!("json {}: the serialised form is not accepted by the deserialiser: {}", ty, e.to_string().chars().take(120).collect::<String>()), json!({"type": ty, "json": j1.to_string().chars().take(1500).collect::<String>()})); return; }
    };
    let j2 = serde_json::to_value(&y).unwrap_or(Value::Null);
    if j1 != j2 { cx.fail(format!("json {}: deserialise then serialise changes the JSON", ty), json!({"type": ty, "json": j1.to_string().chars().take(1500).collect::<String>(), "again": j2.to_string().chars().take(1500).collect::<String>()})); return; }
    if text_level {
        let s1 = serde_json::to_string(x).unwrap_or_default();
        match serde_json::from_str::<T>(&s1) {
            Ok(z) => { let s2 = serde_json::to_string(&z).unwrap_or_default(); if s1 != s2 { cx.fail(format!("json {}: text form changes when deserialised and serialised again", ty), json!({"type": ty, "text": s1.chars().take(1500).collect::<String>(), "again": s2.chars().take(1500).collect::<String>()})); } }
            Err(e) => cx.fail(format!("json {}: text form not accepted: {}", ty, e), json!({"type": ty, "text": s1.chars().take(1500).collect::<String>()})),
        }
    }
}

// ---------------------------------------------------------------------------------------
// histories (BlockHistoryCacheData<V>): private map, no PartialEq; built through the API
// and through decode

fn lp(b: &[u8]) -> Vec<u8> { let mut v = (b.len() as u32).to_be_bytes().to_vec(); v.extend_from_slice(b); v }

fn hist_bytes<V: Encode>(entries: &[(u64, Option<V>)], len_field: u32) -> Vec<u8> {
    let mut b = Vec::new();
    len_field.encode(&mut b);
    for (k, v) in entries { k.encode(&mut b); v.encode(&mut b); }
    b
}

fn run_hist<V: M + Eq>(cx: &mut Ctx, stem: &str, coq_v: &str, codec_v: &str, eqb_v: &str, quick_n: usize, gen: impl Fn(&mut Rng) -> V) {
    type H<V> = BlockHistoryCacheData<V>;
    let base = cx.base();
    let n = if cx.thorough { quick_n * 8 } else { quick_n };
    let mut vterms = Vec::new();
    let mut mterms = Vec::new();
    let mut mid = base + 500_000;
    for i in 0..n {
        let id = base + i as u64;
        let mut r = cx.rng.fork();
        // strictly increasing keys, None/Some values
        let cnt = match r.below(5) { 0 => 0, 1 => 1, _ => r.below(12) };
        let mut k = if r.chance(1, 3) { 0 } else { g_u64(&mut r) / 2 };
        let mut entries: Vec<(u64, Option<V>)> = Vec::new();
        for _ in 0..cnt {
            entries.push((k, g_opt(&mut r, &gen)));
            let step = 1 + r.below(3) + if r.chance(1, 10) { 1 << 33 } else { 0 };
            match k.checked_add(step) { Some(x) => k = x, None => break }
        }
        let (h_obj, enc): (H<V>, Vec<u8>) = if i % 2 == 0 || entries.is_empty() {
            // through decode
            let b = hist_bytes(&entries, entries.len() as u32);
            match catch_unwind(AssertUnwindSafe(|| H::<V>::decode(&b, 0))) {
                Ok(Ok((h, end))) => { if end != b.len() { cx.fail(format!("{}: decode consumed {} of {} bytes", stem, end, b.len()), json!({"id": id, "hex": hex::encode(&b)})); } let e = h.encode_vec(); (h, e) }
                other => { cx.fail(format!("{}: decode of a well-formed history failed: {}", stem, if other.is_err() { "panic" } else { "Err" }), json!({"id": id, "hex": hex::encode(&b)})); continue; }
            }
        } else {
            // through the API: new(first value) then set/unset with increasing stamps close together
            let mut h = H::<V>::new(entries[0].1.clone());
            let mut stamp = 0u64;
            let mut exp: Vec<(u64, Option<V>)> = vec![(0, entries[0].1.clone())];
            for (_, v) in entries.iter().skip(1).take(8) {
                stamp += 1;
                let before = h.encode_vec();
                match v { Some(x) => h.set(stamp, x.clone()), None => h.unset(stamp) }
                if h.encode_vec() != before { exp.push((stamp, v.clone())); }
            }
            entries = exp;
            let e = h.encode_vec();
            (h, e)
        };
        let _ = &h_obj;
        // implementation: encode is the expected layout; decode(encode(h)) re-encodes to the same bytes at the exact offset
        let expect = hist_bytes(&entries, entries.len() as u32);
        if enc != expect { cx.fail(format!("{}: encode_vec is not (len, entries in key order)", stem), json!({"id": id, "got": hex::encode(&enc), "expected": hex::encode(&expect)})); }
        let pre: Vec<u8> = (0..r.below(6)).map(|_| (r.next() & 0xFF) as u8).collect();
        let rest: Vec<u8> = (0..r.below(6)).map(|_| (r.next() & 0xFF) as u8).collect();
        let mut buf = pre.clone(); buf.extend_from_slice(&enc); buf.extend_from_slice(&rest);
        match try_decode::<H<V>>(&buf, pre.len()) {
            (Outcome::Ok { end, reenc }, Some(d)) => {
                if reenc != enc || end != pre.len() + enc.len() || (!entries.is_empty() && d.latest() != entries.last().and_then(|e| e.1.clone())) {
                    cx.fail(format!("{}: decode(encode(h)) differs from h or ends at {} instead of {}", stem, end, pre.len() + enc.len()), json!({"id": id, "hex": hex::encode(&buf), "offset": pre.len()}));
                }
            }
            (o, _) => cx.fail(format!("{}: decode(encode(h)) is {:?}", stem, o), json!({"id": id, "hex": hex::encode(&buf)})),
        }
        let val = cf::list(&entries, |(k, v)| cf::pair(cf::n(*k), v.coq()));
        vterms.push(format!("{{| vc_id := {}; vc_val := {}; vc_bytes := {}; vc_pre := {}; vc_rest := {} |}}", id, val, cf::bytes(&enc), cf::bytes(&pre), cf::bytes(&rest)));
        cx.evals += 1;
        if entries.len() >= 2 { let mut kk = stem.as_bytes().to_vec(); kk.extend_from_slice(&enc); cx.distinct.insert(kk); }
        // malformed: unsorted / duplicate keys, wrong length field, truncations
        if entries.len() >= 2 {
            let mut bufs: Vec<(Vec<u8>, usize)> = Vec::new();
            let mut rev = entries.clone(); rev.reverse();
            bufs.push((hist_bytes(&rev, rev.len() as u32), 0));
            let mut dup = entries.clone(); dup.push(entries[0].clone()); dup.push((entries[1].0, None));
            bufs.push((hist_bytes(&dup, dup.len() as u32), 0));
            bufs.push((hist_bytes(&entries, entries.len() as u32 - 1), 0));
            bufs.push((hist_bytes(&entries, entries.len() as u32 + 1), 0));
            bufs.extend(derived_buffers(&mut r, &enc, 1, 2));
            for (b, off) in bufs {
                let Some(o) = cx.probe(stem, &b, off) else { continue; };
                mterms.push(mcase_term(mid, &b, off, &o));
                cx.jsonl.push_str(&json!({"id": mid, "type": stem, "kind": "buffer", "hex": hex::encode(&b), "offset": off}).to_string());
                cx.jsonl.push('\n');
                mid += 1; cx.evals += 1;
            }
        }
    }
    cx.count(stem, "values", vterms.len() as u64);
    cx.count(stem, "buffers", mterms.len() as u64);
    let ty = format!("(vcase (list (N * option {})))", coq_v);
    let f = cf::write_shards(&cx.out, &format!("c14_v_{}", stem), IMPORTS, &ty, &format!("bad_vcases (c_hist {}) (hist_eqb {})", codec_v, eqb_v), &vterms, (vterms.len() / 120).max(1)).expect("write");
    cx.files.extend(f);
    let f = cf::write_shards(&cx.out, &format!("c14_m_{}", stem), IMPORTS, "mcase", &format!("bad_mcases (c_hist {})", codec_v), &mterms, (mterms.len() / 250).max(1)).expect("write");
    cx.files.extend(f);
}

// ---------------------------------------------------------------------------------------

pub fn run(out: &Path, seed: u64, thorough: bool) -> Result<(), Box<dyn std::error::Error>> {
    std::panic::set_hook(Box::new(|i| { if std::env::var("HX_SHOW_PANICS").is_ok() { eprintln!("{}", i); } }));
    let mut cx = Ctx {
        rng: Rng::new(seed), out: out.to_path_buf(), files: vec![], failures: vec![], jsonl: String::new(), evals: 0,
        distinct: Default::default(), per_type: BTreeMap::new(), outcomes: BTreeMap::new(), next_base: 0, samples: vec![], thorough,
        prober: Prober::spawn(), aborts: vec![], n_aborts: 0,
    };
    let k = if thorough { 8 } else { 1 };
    let n = |base: usize| base * k;
    let chain = chain_id();
    let gas_limit_coq = "(MAX_BLOCK_SIZE * GAS_PER_BYTE)";

    // ---- primitives
    let mut r = cx.rng.fork();
    let u64s: Vec<u64> = B64.iter().cloned().chain((0..n(40)).map(|_| g_u64(&mut r))).collect();
    run_type::<u8>(&mut cx, "u8", "N", "c_u8", "N.eqb", vec![0, 1, 2, 127, 128, 255], vec![(vec![], 0)]);
    run_type::<u32>(&mut cx, "u32", "N", "c_u32", "N.eqb", vec![0, 1, 255, 256, 65535, 65536, u32::MAX - 1, u32::MAX], vec![]);
    run_type::<u64>(&mut cx, "u64", "N", "c_u64", "N.eqb", u64s.clone(), vec![]);
    let u8_bufs: Vec<(Vec<u8>, usize)> = [255u64, 256, 257, 1 << 8, 1 << 32, 1 << 63, u64::MAX].iter().map(|v| (v.to_be_bytes().to_vec(), 0)).collect();
    run_type::<U8ED>(&mut cx, "U8", "N", "c_U8", "N.eqb", (0..=255u8).step_by(5).chain([1u8, 254, 255]).map(|x| x.into()).collect(), u8_bufs);
    run_type::<U64ED>(&mut cx, "U64", "N", "c_U64", "N.eqb", u64s.iter().map(|x| (*x).into()).collect(), vec![]);
    let v128: Vec<U128ED> = (0..n(60)).map(|_| g_u128(&mut r)).chain([0u128, 1, u64::MAX as u128, 1 << 64, (1 << 64) + 1, u128::MAX].map(|x| x.into())).collect();
    run_type::<U128ED>(&mut cx, "U128", "N", "c_U128", "N.eqb", v128.clone(), vec![]);
    let v256: Vec<U256ED> = (0..n(60)).map(|_| g_u256(&mut r)).chain([U256::ZERO, U256::from(1u64), U256::MAX, U256::from(1u64) << 64, U256::from(1u64) << 128, U256::from(1u64) << 255].map(|x| x.into())).collect();
    run_type::<U256ED>(&mut cx, "U256", "N", "c_U256", "N.eqb", v256.clone(), vec![]);
    let v512: Vec<U512ED> = (0..n(60)).map(|_| g_u512(&mut r)).collect();
    run_type::<U512ED>(&mut cx, "U512", "N", "c_U512", "N.eqb", v512.clone(), vec![]);
    let addrs: Vec<AddressED> = (0..n(40)).map(|_| g_addr(&mut r)).collect();
    run_type::<AddressED>(&mut cx, "addr", "bytes", "c_addr", "bytes_eqb", addrs.clone(), vec![]);
    let b256s: Vec<B256ED> = (0..n(40)).map(|_| g_b256(&mut r)).collect();
    run_type::<B256ED>(&mut cx, "b256", "bytes", "c_b256", "bytes_eqb", b256s.clone(), vec![]);
    run_type::<B2048ED>(&mut cx, "bloom", "bytes", "c_bloom", "bytes_eqb", (0..n(12)).map(|_| g_bloom(&mut r)).collect(), vec![]);

    // ---- byte strings, strings, options, vectors, tuples
    let mut bytes_vals: Vec<BytesED> = SIZES.iter().map(|s| (0..*s).map(|i| (i * 7 % 256) as u8).collect::<Vec<u8>>().into()).collect();
    bytes_vals.extend((0..n(30)).map(|_| g_bytes(&mut r)));
    bytes_vals.push(vec![0xABu8; if thorough { 12_000 } else { 3_000 }].into());
    // length field larger / smaller than the content, by hand
    let bytes_bufs: Vec<(Vec<u8>, usize)> = vec![
        (vec![0, 0, 0, 5, 1, 2, 3], 0), (vec![0, 0, 0, 2, 1, 2, 3], 0), (vec![0, 0, 1, 0, 9], 0), (vec![0, 0, 0], 0), (vec![0, 0, 0, 0], 0),
        (vec![0, 0, 0, 1], 0), (vec![7, 0, 0, 0, 1, 9], 1),
    ];
    run_type::<BytesED>(&mut cx, "bytes", "bytes", "c_bytes", "bytes_eqb", bytes_vals, bytes_bufs.clone());
    run_type::<Vec<u8>>(&mut cx, "vecu8", "(list N)", "(c_vec c_u8)", "bytes_eqb", (0..n(15)).map(|_| g_vec_u8(&mut r, 300)).collect(), bytes_bufs);
    // long vectors (around 2^16 elements and above), on the implementation alone (the model's vector
    // codec is uniform in the length; a 70 000-element literal per case would only cost evaluation time)
    for len in [65_534usize, 65_535, 65_536, 65_537, 70_000, 200_000] {
        let v: Vec<u8> = (0..len).map(|i| (i * 7 + len) as u8).collect();
        big_roundtrip::<Vec<u8>>(&mut cx, "vecu8", &v, len);
        big_roundtrip::<BytesED>(&mut cx, "bytes", &v.clone().into(), len);
        let st: String = (0..len).map(|i| (b'a' + (i % 26) as u8) as char).collect();
        big_roundtrip::<String>(&mut cx, "string", &st, len);
    }
    let mut strs: Vec<String> = STRINGS.iter().map(|s| s.to_string()).collect();
    strs.extend((0..n(30)).map(|_| g_string(&mut r)));
    // invalid and boundary UTF-8, by hand
    let utf8_bad: Vec<Vec<u8>> = vec![
        vec![0x80], vec![0xBF], vec![0xC0, 0x80], vec![0xC1, 0xBF], vec![0xC2], vec![0xC2, 0x41], vec![0xC2, 0x80], vec![0xDF, 0xBF], vec![0xE0, 0x80, 0x80],
        vec![0xE0, 0x9F, 0xBF], vec![0xE0, 0xA0, 0x80], vec![0xE0, 0xA0], vec![0xED, 0x9F, 0xBF], vec![0xED, 0xA0, 0x80], vec![0xED, 0xBF, 0xBF], vec![0xEE, 0x80, 0x80],
        vec![0xEF, 0xBF, 0xBF], vec![0xF0, 0x80, 0x80, 0x80], vec![0xF0, 0x8F, 0xBF, 0xBF], vec![0xF0, 0x90, 0x80, 0x80], vec![0xF0, 0x90, 0x80], vec![0xF4, 0x8F, 0xBF, 0xBF],
        vec![0xF4, 0x90, 0x80, 0x80], vec![0xF5, 0x80, 0x80, 0x80], vec![0xF8, 0x88, 0x80, 0x80, 0x80], vec![0xFF], vec![0xFE], vec![0x61, 0xE2, 0x82], vec![0x61, 0xE2, 0x82, 0xAC, 0x62],
        vec![0xE1, 0x80, 0x41], vec![0xF1, 0x80, 0x80, 0x41], vec![0xF3, 0xBF, 0xBF, 0xBF], vec![0xEC, 0xBF, 0xBF], vec![0xE1, 0xC0, 0x80], vec![0xF1, 0x80, 0xC0, 0x80], vec![0x00], vec![0x7F],
    ];
    let str_bufs: Vec<(Vec<u8>, usize)> = utf8_bad.iter().map(|b| (lp(b), 0)).collect();
    run_type::<String>(&mut cx, "string", "bytes", "c_string", "bytes_eqb", strs.clone(), str_bufs);
    let opt_bufs: Vec<(Vec<u8>, usize)> = [0u8, 1, 2, 3, 127, 128, 255].iter().map(|f| { let mut b = vec![*f]; b.extend_from_slice(&7u64.to_be_bytes()); (b, 0) }).chain([(vec![1u8], 0), (vec![0u8], 0), (vec![2u8], 0)]).collect();
    run_type::<Option<U64ED>>(&mut cx, "optU64", "(option N)", "(c_opt c_U64)", "(opt_eqb N.eqb)", vec![None, Some(0u64.into()), Some(1u64.into()), Some(u64::MAX.into()), Some(g_u64ed(&mut r))], opt_bufs);
    run_type::<Option<AddressED>>(&mut cx, "optaddr", "(option bytes)", "(c_opt c_addr)", "obytes_eqb", (0..n(10)).map(|_| g_opt(&mut r, g_addr)).collect(), vec![]);
    run_type::<Option<String>>(&mut cx, "optstring", "(option bytes)", "(c_opt c_string)", "obytes_eqb", (0..n(20)).map(|_| g_opt(&mut r, g_string)).collect(), vec![]);
    run_type::<Option<BytesED>>(&mut cx, "optbytes", "(option bytes)", "(c_opt c_bytes)", "obytes_eqb", (0..n(12)).map(|_| g_opt(&mut r, g_bytes)).collect(), vec![]);
    let big_vec: Vec<B256ED> = (0..if thorough { 300 } else { 100 }).map(|_| g_b256(&mut r)).collect();
    run_type::<Vec<B256ED>>(&mut cx, "vecb256", "(list bytes)", "(c_vec c_b256)", "(list_eqb bytes_eqb)", (0..n(12)).map(|_| g_vec(&mut r, 6, g_b256)).chain([vec![], big_vec]).collect(), vec![(vec![0, 0, 0, 2, 1], 0)]);
    run_type::<Vec<Option<String>>>(&mut cx, "vecoptstring", "(list (option bytes))", "(c_vec (c_opt c_string))", "(list_eqb obytes_eqb)", (0..n(12)).map(|_| g_vec(&mut r, 5, |r| g_opt(r, g_string))).collect(), vec![]);
    run_type::<(AddressED, U64ED)>(&mut cx, "addrnonce", "(bytes * N)", "c_addr_nonce", "(pair_eqb bytes_eqb N.eqb)", (0..n(25)).map(|_| (g_addr(&mut r), g_u64ed(&mut r))).collect(), vec![]);
    run_type::<(String, (Option<U256ED>, Vec<u8>))>(&mut cx, "nested", "(bytes * (option N * list N))", "(c_pair c_string (c_pair (c_opt c_U256) (c_vec c_u8)))", "(pair_eqb bytes_eqb (pair_eqb (opt_eqb N.eqb) bytes_eqb))",
        (0..n(20)).map(|_| (g_string(&mut r), (g_opt(&mut r, g_u256), g_vec_u8(&mut r, 100)))).collect(), vec![]);

    // ---- records
    run_type::<AccountInfoED>(&mut cx, "account", "account", "c_account", "account_eqb", (0..n(40)).map(|_| g_account(&mut r)).collect(), vec![]);
    let mut bc_bufs: Vec<(Vec<u8>, usize)> = Vec::new();
    for raw in [vec![0xEFu8, 0x01], vec![0xEF, 0x01, 0x00], { let mut v = vec![0xEF, 0x01, 0x01]; v.extend_from_slice(&[7u8; 20]); v }, { let mut v = vec![0xEF, 0x01, 0x00]; v.extend_from_slice(&[7u8; 20]); v },
                { let mut v = vec![0xEF, 0x01, 0x00]; v.extend_from_slice(&[7u8; 21]); v }, { let mut v = vec![0xEF, 0x01, 0x00]; v.extend_from_slice(&[7u8; 19]); v }, vec![0xEF, 0x00, 0x01], vec![0xEF], vec![0x01, 0xEF]] {
        bc_bufs.push((lp(&raw), 0));
    }
    run_type::<BytecodeED>(&mut cx, "bytecode", "bytes", "c_bytecode", "bytes_eqb", (0..n(30)).map(|_| g_bytecode(&mut r)).collect(), bc_bufs);
    run_type::<LogED>(&mut cx, "log", "log", "c_log", "log_eqb", (0..n(40)).map(|_| g_log(&mut r)).collect(), vec![]);
    let mut txs: Vec<TxED> = (0..16).map(|m| g_tx(&mut r, m)).collect();
    txs.extend((0..n(40)).map(|_| { let m = r.below(16); g_tx(&mut r, m) }));
    run_type::<TxED>(&mut cx, "tx", "tx", &format!("(c_tx {})", chain), "tx_eqb", txs.clone(), vec![]);
    let mut rcs: Vec<TxReceiptED> = (0..4).map(|m| g_receipt(&mut r, m)).collect();
    rcs.extend((0..n(30)).map(|_| { let m = r.below(4); g_receipt(&mut r, m) }));
    // a receipt written by an older version: non-empty legacy fields (the test vector of the crate)
    let legacy_hex = "000000000000000100000000000000000000000101010101010101010101010101010101010101010000000202020202020202020202020202020202020202020202020202020202020202020303030303030303030303030303030303030303030303030303030303030303000000200404040404040404040404040404040404040404040404040404040404040404000000000000000d0c0c0c0c0c0c0c0c0c0c0c0c0c0c0c0c0c0c0c0c0c0c0c0c0c0c0c0c0c0c0c0c0a0a0a0a0a0a0a0a0a0a0a0a0a0a0a0a0a0a0a0a0a0a0a0a0a0a0a0a0a0a0a0a000000000000000b000000000000000000000000000000050606060606060606060606060606060606060606010707070707070707070707070707070707070707010808080808080808080808080808080808080808000000000000000000000000800000000000000000000000000000000000000000000000000000000000000000000000000000000000040000000000000000000000800800000000000000000000000000000000000000000000000000000000000000000000000000000000000000000000000000000000000000000000000000000000000000000000000000000000000000000000000000000000001000000000000000000000000000000000000004000000000020000000000000000000000000000000000000000000000000000000002000000008000000000000000000000000000000000000000000000000000000000000000000000000000000000a0a0a0a0a0a0a0a0a0a0a0a0a0a0a0a0a0a0a0a0a0a0a0a0a0a0a0a0a0a0a0a000000000000000b00000000000000000c0c0c0c0c0c0c0c0c0c0c0c0c0c0c0c0c0c0c0c0c0c0c0c0c0c0c0c0c0c0c0c000000000000000d000000000000000e000000000000000000";
    let mut rc_bufs = vec![(hex::decode(legacy_hex)?, 0usize)];
    {
        // legacy fields carrying data: type "ok", reason "r", timestamp 5, nonce 9, result bytes Some([1,2])
        let rc = &rcs[3];
        let mut b = Vec::new();
        rc.status.encode(&mut b); "ok".to_string().encode(&mut b); "r\u{e9}".to_string().encode(&mut b); rc.logs.encode(&mut b); rc.gas_used.encode(&mut b);
        rc.from.encode(&mut b); rc.to.encode(&mut b); rc.contract_address.encode(&mut b); rc.logs_bloom.encode(&mut b); rc.block_hash.encode(&mut b);
        rc.block_number.encode(&mut b); U64ED::from(5u64).encode(&mut b); rc.transaction_hash.encode(&mut b); rc.transaction_index.encode(&mut b);
        rc.cumulative_gas_used.encode(&mut b); U64ED::from(9u64).encode(&mut b); Some(BytesED::from(vec![1u8, 2])).encode(&mut b);
        rc_bufs.push((b.clone(), 0));
        // invalid UTF-8 in a legacy string is still an error
        let mut c = Vec::new(); rc.status.encode(&mut c); c.extend_from_slice(&lp(&[0xFF])); c.extend_from_slice(&b[8 + 6..]);
        rc_bufs.push((c, 0));
    }
    run_type::<TxReceiptED>(&mut cx, "receipt", "receipt", "c_receipt", "receipt_eqb", rcs.clone(), rc_bufs);
    let mut blocks: Vec<BlockResponseED> = [0usize, 1, 2, 3, 4, 5, 50, if thorough { 300 } else { 120 }].iter().map(|c| g_block(&mut r, *c)).collect();
    blocks.extend((0..n(10)).map(|_| { let c = r.below(8) as usize; g_block(&mut r, c) }));
    run_type::<BlockResponseED>(&mut cx, "block", "block", &format!("(c_block {})", gas_limit_coq), "block_eqb", blocks.clone(), vec![]);
    let mut traces: Vec<TraceED> = (0..8).map(|m| g_trace(&mut r, 0, 0, m)).collect();
    for d in 1..=(if thorough { 5 } else { 4 }) { for f in 1..=3 { let m = r.below(8); traces.push(g_trace(&mut r, d, f, m)); } }
    { let mut t = g_trace(&mut r, if thorough { 80 } else { 40 }, 1, 1); fn strip(t: &mut TraceED) { t.input = vec![1u8].into(); t.output = Vec::<u8>::new().into(); for c in t.calls.iter_mut() { strip(c); } } strip(&mut t); traces.push(t); }
    traces.extend((0..n(10)).map(|_| { let (d, f, m) = (r.below(4), r.below(4), r.below(8)); g_trace(&mut r, d, f, m) }));
    run_type::<TraceED>(&mut cx, "trace", "trace", "c_trace", "trace_eqb", traces.clone(), vec![]);
    // values concatenate: a tuple of records is the concatenation of their encodings
    run_type::<(TxED, (TxReceiptED, TraceED))>(&mut cx, "concat", "(tx * (receipt * trace))", &format!("(c_pair (c_tx {}) (c_pair c_receipt c_trace))", chain),
        "(pair_eqb tx_eqb (pair_eqb receipt_eqb trace_eqb))", (0..n(8)).map(|i| (txs[i % txs.len()].clone(), (rcs[i % rcs.len()].clone(), traces[i % traces.len()].clone()))).collect(), vec![]);
    for i in 0..n(8) {
        let (a, b, c) = (&txs[i % txs.len()], &rcs[(i * 3) % rcs.len()], &traces[(i * 5) % traces.len()]);
        let mut buf = a.encode_vec(); let o1 = buf.len(); b.encode(&mut buf); let o2 = buf.len(); c.encode(&mut buf);
        let ok = (|| { let (x, p) = TxED::decode(&buf, 0).ok()?; let (y, q) = TxReceiptED::decode(&buf, p).ok()?; let (z, e) = TraceED::decode(&buf, q).ok()?; Some(&x == a && &y == b && &z == c && p == o1 && q == o2 && e == buf.len()) })();
        if ok != Some(true) { cx.fail("concatenated encodings do not decode one after the other".into(), json!({"hex": hex::encode(&buf)})); }
    }

    // ---- histories
    // every value type the versioned tables store
    run_hist::<U64ED>(&mut cx, "histU64", "N", "c_U64", "N.eqb", 36, g_u64ed);
    run_hist::<AccountInfoED>(&mut cx, "histaccount", "account", "c_account", "account_eqb", 20, g_account);
    run_hist::<B256ED>(&mut cx, "histb256", "bytes", "c_b256", "bytes_eqb", 20, g_b256);
    run_hist::<U256ED>(&mut cx, "histU256", "N", "c_U256", "N.eqb", 16, g_u256);
    run_hist::<String>(&mut cx, "histstring", "bytes", "c_string", "bytes_eqb", 16, g_string);
    run_hist::<BytecodeED>(&mut cx, "histbytecode", "bytes", "c_bytecode", "bytes_eqb", 10, g_bytecode);
    run_hist::<TxED>(&mut cx, "histtx", "tx", &format!("(c_tx {})", chain), "tx_eqb", 10, |r| { let m = r.below(16); g_tx(r, m) });
    run_hist::<TxReceiptED>(&mut cx, "histreceipt", "receipt", "c_receipt", "receipt_eqb", 6, |r| { let m = r.below(4); let mut rc = g_receipt(r, m); rc.logs.truncate(1); rc });
    run_hist::<TraceED>(&mut cx, "histtrace", "trace", "c_trace", "trace_eqb", 6, |r| { let m = r.below(8); g_trace(r, 1, 1, m) });

    // ---- raw blocks (RLP through alloy, hex text, String / Vec<String>)
    {
        let base = cx.base();
        let mut vterms = Vec::new();
        let mut mterms = Vec::new();
        let mut mid = base + 500_000;
        let cnt = if thorough { 60 } else { 8 };
        for i in 0..cnt {
            let id = base + i as u64;
            let ntx = [0usize, 1, 2, 3, 5][i % 5];
            let blk = g_block(&mut r, ntx);
            let btx: Vec<TxED> = (0..ntx).map(|_| { let m = r.below(16); let mut t = g_tx(&mut r, m); if r.chance(1, 4) { t.to = Some([0u8; 20].into()); } if t.input.bytes.len() > 40 { t.input = t.input.bytes[..40].to_vec().into(); } t }).collect();
            let brc: Vec<TxReceiptED> = (0..if i % 7 == 6 { 0 } else { ntx }).map(|_| { let m = r.below(4); let mut rc = g_receipt(&mut r, m); rc.logs.truncate(2); for l in rc.logs.iter_mut() { l.topics.truncate(4); if l.data.bytes.len() > 40 { l.data = l.data.bytes[..40].to_vec().into(); } } rc }).collect();
            let rb = match catch_unwind(AssertUnwindSafe(|| RawBlock::new(blk.clone(), btx.clone(), brc.clone()))) { Ok(x) => x, Err(_) => { cx.fail("rawblock: RawBlock::new panicked".into(), json!({"id": id})); continue; } };
            let enc = rb.encode_vec();
            let (o, d) = try_decode::<RawBlock>(&enc, 0);
            match (&o, &d) {
                (Outcome::Ok { end, .. }, Some(x)) => { if x != &rb || *end != enc.len() { cx.fail("rawblock: decode(encode(x)) != x".into(), json!({"id": id, "encoded_hex": hex::encode(&enc), "value": format!("{:?}", rb).chars().take(3000).collect::<String>(), "decoded": format!("{:?}", x).chars().take(3000).collect::<String>()})); } }
                _ => cx.fail(format!("rawblock: decode(encode(x)) is {:?}", o), json!({"id": id, "encoded_hex": hex::encode(&enc), "value": format!("{:?}", rb).chars().take(3000).collect::<String>()})),
            }
            let pre: Vec<u8> = (0..r.below(6)).map(|_| (r.next() & 0xFF) as u8).collect();
            let rest: Vec<u8> = (0..r.below(6)).map(|_| (r.next() & 0xFF) as u8).collect();
            let mut buf = pre.clone(); buf.extend_from_slice(&enc); buf.extend_from_slice(&rest);
            match try_decode::<RawBlock>(&buf, pre.len()) {
                (Outcome::Ok { end, .. }, Some(x)) if x == rb && end == pre.len() + enc.len() => {}
                (o, _) => cx.fail(format!("rawblock: decode inside a larger buffer: {:?}", match o { Outcome::Ok { end, .. } => format!("Ok end {}", end), o => format!("{:?}", o) }), json!({"id": id})),
            }
            // the RLP layer, independently of raw_block()/raw_receipts()
            let rlp_block: Vec<u8> = alloy::rlp::encode(&rb.block);
            let rlp_receipts: Vec<Vec<u8>> = rb.receipts.iter().map(|x| alloy::rlp::encode(x)).collect();
            let val = cf::pair(cf::bytes(&rlp_block), cf::list(&rlp_receipts, |x| cf::bytes(x)));
            vterms.push(format!("{{| vc_id := {}; vc_val := {}; vc_bytes := {}; vc_pre := {}; vc_rest := {} |}}", id, val, cf::bytes(&enc), cf::bytes(&pre), cf::bytes(&rest)));
            cx.evals += 1;
            let mut kk = b"rawblock".to_vec(); kk.extend_from_slice(&enc); cx.distinct.insert(kk);
            // buffers whose outcome does not depend on the RLP decoder: truncations (panic), a non-hex
            // character (Err), a doubled "0x" prefix (accepted: trim_start_matches removes both)
            let mut bufs: Vec<(Vec<u8>, usize)> = Vec::new();
            if !thorough && i >= 4 { continue; }
            for c in [3usize, enc.len() - 1] { if c < enc.len() { bufs.push((enc[..c].to_vec(), 0)); } }
            let mut bad = enc.clone(); bad[4 + 2 + (r.below(20) as usize)] = b'g'; bufs.push((bad, 0));
            let mut bad2 = enc.clone(); let l = bad2.len(); if ntx > 0 && !brc.is_empty() { bad2[l - 1] = b'x'; bufs.push((bad2, 0)); }
            let mut dbl = Vec::new(); format!("0x{}", rb.raw_block()).encode(&mut dbl); rb.raw_receipts().encode(&mut dbl); bufs.push((dbl, 0));
            let mut nop = Vec::new(); rb.raw_block().trim_start_matches("0x").to_string().encode(&mut nop); rb.raw_receipts().encode(&mut nop); bufs.push((nop, 0));
            let mut odd = Vec::new(); format!("{}0", rb.raw_block()).encode(&mut odd); rb.raw_receipts().encode(&mut odd); bufs.push((odd, 0));
            for (b, off) in bufs {
                let Some(o) = cx.probe("rawblock", &b, off) else { continue; };
                mterms.push(mcase_term(mid, &b, off, &o));
                mid += 1; cx.evals += 1;
            }
        }
        cx.count("rawblock", "values", vterms.len() as u64);
        cx.count("rawblock", "buffers", mterms.len() as u64);
        let f = cf::write_shards(&cx.out, "c14_v_rawblock", IMPORTS, "(vcase (bytes * list bytes))", "bad_vcases rb_codec rb_eqb", &vterms, (vterms.len() / 4).max(1))?;
        cx.files.extend(f);
        let f = cf::write_shards(&cx.out, "c14_m_rawblock", IMPORTS, "mcase", "bad_mcases rb_codec", &mterms, (mterms.len() / 16).max(1))?;
        cx.files.extend(f);
    }

    // ---- order laws
    let bnd64: Vec<U64ED> = B64.iter().map(|x| (*x).into()).collect();
    let mut p64 = all_pairs(&bnd64); p64.extend((0..n(100)).map(|_| (g_u64ed(&mut r), g_u64ed(&mut r))));
    run_order::<U64ED>(&mut cx, "U64", "N", "c_U64", "N.compare", p64, |a, b| a.cmp(b), true);
    let mut pu64 = all_pairs(&B64.to_vec()); pu64.extend((0..n(60)).map(|_| (g_u64(&mut r), g_u64(&mut r))));
    run_order::<u64>(&mut cx, "u64", "N", "c_u64", "N.compare", pu64, |a, b| a.cmp(b), true);
    let b128: Vec<U128ED> = [0u128, 1, 255, 256, (1 << 32) - 1, 1 << 32, u64::MAX as u128, 1 << 64, (1 << 64) + 1, (1 << 64) + 256, 255 << 64, 256 << 64, u128::MAX - 1, u128::MAX].iter().map(|x| (*x).into()).collect();
    let mut p128 = all_pairs(&b128); p128.extend((0..n(100)).map(|_| (g_u128(&mut r), g_u128(&mut r))));
    run_order::<U128ED>(&mut cx, "U128", "N", "c_U128", "N.compare", p128, |a, b| a.cmp(b), true);
    let mut p256 = all_pairs(&v256[v256.len() - 6..].to_vec()); p256.extend((0..n(100)).map(|_| (g_u256(&mut r), g_u256(&mut r))));
    run_order::<U256ED>(&mut cx, "U256", "N", "c_U256", "N.compare", p256, |a, b| a.cmp(b), true);
    let p512: Vec<(U512ED, U512ED)> = (0..n(150)).map(|_| { let a = g_u512(&mut r); let b = if r.chance(1, 4) { let mut l = *a.uint.as_limbs(); let i = r.below(8) as usize; l[i] = l[i].wrapping_add(1); UintED::new(Uint::from_limbs(l)) } else { g_u512(&mut r) }; (a, b) }).collect();
    run_order::<U512ED>(&mut cx, "U512", "N", "c_U512", "N.compare", p512, |a, b| a.cmp(b), true);
    let paddr: Vec<(AddressED, AddressED)> = (0..n(120)).map(|_| (g_addr(&mut r), g_addr(&mut r))).collect();
    run_order::<AddressED>(&mut cx, "addr", "bytes", "c_addr", "lcmp", paddr, |a, b| a.address.cmp(&b.address), true);
    let pb: Vec<(B256ED, B256ED)> = (0..n(120)).map(|_| (g_b256(&mut r), g_b256(&mut r))).collect();
    run_order::<B256ED>(&mut cx, "b256", "bytes", "c_b256", "lcmp", pb, |a, b| a.bytes.cmp(&b.bytes), true);
    let pan: Vec<((AddressED, U64ED), (AddressED, U64ED))> = (0..n(250)).map(|_| {
        let a = g_addr(&mut r); let b = if r.chance(1, 2) { a.clone() } else { g_addr(&mut r) };
        ((a, g_u64ed(&mut r)), (b, g_u64ed(&mut r)))
    }).collect();
    run_order::<(AddressED, U64ED)>(&mut cx, "addrnonce", "(bytes * N)", "c_addr_nonce", "pair_cmp", pan, |a, b| a.0.address.cmp(&b.0.address).then(a.1.cmp(&b.1)), true);
    // String keys (inscription id -> tx hash is only ever looked up by exact key): the law is expected to fail
    let mut pstr: Vec<(String, String)> = all_pairs(&["", "a", "b", "aa", "ab", "b0", "ba", "z", "zz", "aaa"].map(|s| s.to_string()).to_vec());
    pstr.extend((0..n(40)).map(|_| (g_string(&mut r), g_string(&mut r))));
    let string_violations = run_order::<String>(&mut cx, "string", "bytes", "c_string", "lcmp", pstr, |a, b| a.cmp(b), false);

    // ---- number-and-index keys, range scans, last key (implementation alone + model of the key)
    {
        let base = cx.base();
        let mut kterms = Vec::new();
        let mut keys: Vec<(u64, u64, Vec<u8>)> = Vec::new();
        let pts = [0u64, 1, 2, 255, 256, (1 << 32) - 1, 1 << 32, u64::MAX - 1, u64::MAX];
        for (i, (b, x)) in all_pairs(&pts.to_vec()).into_iter().chain((0..n(60)).map(|_| (g_u64(&mut r), g_u64(&mut r)))).enumerate() {
            // Brc20ProgDatabase::get_number_and_index_key is private: same expression (see HOOK_REQUESTS.md)
            let key: u128 = ((b as u128) << 64) | x as u128;
            let enc = U128ED::from(key).encode_vec();
            kterms.push(format!("{{| kc_id := {}; kc_block := {}; kc_idx := {}; kc_key := {}; kc_bytes := {} |}}", base + i as u64, b, x, key, cf::bytes(&enc)));
            keys.push((b, x, enc));
            cx.evals += 1;
        }
        for (b, _, _) in keys.clone().iter().take(90) {
            if *b == u64::MAX { continue; }
            let lo = U128ED::from((*b as u128) << 64).encode_vec();
            let hi = U128ED::from(((*b + 1) as u128) << 64).encode_vec();
            for (b2, x2, e2) in &keys {
                let inside = e2 >= &lo && e2 < &hi;
                if inside != (b2 == b) { cx.fail("range scan [key(b,0), key(b+1,0)) does not select exactly the keys of block b".into(), json!({"block": b, "key_block": b2, "key_idx": x2})); }
            }
        }
        // sorted by encoded bytes == sorted numerically; the last key is the maximum
        let mut by_bytes: Vec<(Vec<u8>, u64)> = u64s.iter().map(|x| (x.encode_vec(), *x)).collect();
        by_bytes.sort();
        let nums: Vec<u64> = by_bytes.iter().map(|x| x.1).collect();
        let mut sorted = nums.clone(); sorted.sort();
        if nums != sorted || by_bytes.last().map(|x| U64ED::decode_vec(&x.0).ok().map(|v| { let n: u64 = v.into(); n })) != Some(u64s.iter().max().cloned()) {
            cx.fail("u64 keys sorted by their encoding are not in numeric order / the last key is not the maximum".into(), json!({"keys": nums}));
        }
        if u64s.iter().any(|x| x.encode_vec() != U64ED::from(*x).encode_vec()) { cx.fail("u64 and U64ED encode differently".into(), json!({})); }
        cx.count("nikey", "keys", kterms.len() as u64);
        let f = cf::write_shards(&cx.out, "c14_k_nikey", IMPORTS, "kcase", "bad_kcases", &kterms, 1)?;
        cx.files.extend(f);
        // (address, slot) keys: U512ED::from_addr_u256 is crate-private: same bytes (see HOOK_REQUESTS.md)
        let base = cx.base();
        let mut sterms = Vec::new();
        let mut seen: HashMap<Vec<u8>, (AddressED, U256ED)> = HashMap::new();
        for i in 0..n(80) {
            let (a, m) = (g_addr(&mut r), g_u256(&mut r));
            let mut raw = a.address.as_slice().to_vec(); raw.extend_from_slice(&[0u8; 12]); raw.extend_from_slice(&m.uint.to_be_bytes::<32>());
            let key = U512ED::new(Uint::<512, 8>::from_be_bytes::<64>(raw.clone().try_into().unwrap()));
            let enc = key.encode_vec();
            if enc != raw { cx.fail("U512 key of (address, slot) does not encode to address ++ 12 zero bytes ++ slot".into(), json!({"addr": format!("{:?}", a), "slot": format!("{:?}", m)})); }
            if let Some(prev) = seen.insert(enc.clone(), (a.clone(), m.clone())) { if prev != (a.clone(), m.clone()) { cx.fail("two (address, slot) pairs share a key".into(), json!({})); } }
            sterms.push(format!("{{| sc_id := {}; sc_addr := {}; sc_slot := {}; sc_bytes := {} |}}", base + i as u64, a.coq(), m.coq(), cf::bytes(&enc)));
            cx.evals += 1;
        }
        let f = cf::write_shards(&cx.out, "c14_k_slot", IMPORTS, "scase", "bad_scases", &sterms, 1)?;
        cx.files.extend(f);
    }

    // ---- JSON: serialise -> deserialise -> serialise is the identity, for every API type
    {
        for x in &u64s { json_roundtrip(&mut cx, "U64ED", &U64ED::from(*x), true); }
        for x in (0..=255u8).step_by(15) { json_roundtrip(&mut cx, "U8ED", &U8ED::from(x), true); }
        for x in &v128 { json_roundtrip(&mut cx, "U128ED", x, true); }
        for x in &v256 { json_roundtrip(&mut cx, "U256ED", x, true); }
        for x in &v512 { json_roundtrip(&mut cx, "U512ED", x, true); }
        for x in &addrs { json_roundtrip(&mut cx, "AddressED", x, true); }
        for x in &b256s { json_roundtrip(&mut cx, "B256ED", x, true); }
        for _ in 0..n(6) { json_roundtrip(&mut cx, "B2048ED", &g_bloom(&mut r), true); }
        for _ in 0..n(30) { json_roundtrip(&mut cx, "BytesED", &g_bytes(&mut r), true); }
        json_roundtrip(&mut cx, "BytesED", &BytesED::from(Vec::<u8>::new()), true);
        for _ in 0..n(30) { json_roundtrip(&mut cx, "BytecodeED", &g_bytecode(&mut r), true); }
        for _ in 0..n(30) { json_roundtrip(&mut cx, "AccountInfoED", &g_account(&mut r), true); }
        for _ in 0..n(30) { json_roundtrip(&mut cx, "LogED", &g_log(&mut r), true); }
        for x in &txs { json_roundtrip(&mut cx, "TxED", x, true); }
        for x in &rcs { json_roundtrip(&mut cx, "TxReceiptED", x, true); }
        fn tdepth(t: &TraceED) -> usize { 1 + t.calls.iter().map(tdepth).max().unwrap_or(0) }
        for x in &traces { json_roundtrip(&mut cx, "TraceED", x, tdepth(x) <= 60); }
        // how deep a call trace may be nested before its JSON text stops being readable
        let chain = |d: usize| -> TraceED {
            let leaf = |calls: Vec<TraceED>| TraceED { tx_type: "CALL".into(), from: [1u8; 20].into(), to: Some([2u8; 20].into()), calls, gas: U256::from(1u64).into(), gas_used: U256::from(1u64).into(), input: Vec::<u8>::new().into(), output: Vec::<u8>::new().into(), value: U256::ZERO.into(), error: None, revert_reason: None };
            let mut t = leaf(vec![]);
            for _ in 1..d { t = leaf(vec![t]); }
            t
        };
        let reads = |d: usize, envelope: bool| -> Result<bool, String> {
            let t = chain(d);
            let text = serde_json::to_string(&t).map_err(|e| e.to_string())?;
            if envelope {
                // what a JSON-RPC client parses: the response object, then the result
                let full = format!("{{\"jsonrpc\":\"2.0\",\"id\":1,\"result\":{}}}", text);
                let v: jsonrpsee::types::Response<TraceED> = serde_json::from_str(&full).map_err(|e| e.to_string())?;
                match v.payload { jsonrpsee::types::ResponsePayload::Success(x) => Ok(*x == t), _ => Err("error payload".into()) }
            } else {
                serde_json::from_str::<TraceED>(&text).map(|x| x == t).map_err(|e| e.to_string())
            }
        };
        for envelope in [false, true] {
            let mut deepest_ok = 0usize; let mut first_bad: Option<(usize, String)> = None;
            for d in 1..=200usize {
                match reads(d, envelope) { Ok(true) => deepest_ok = d, Ok(false) => { first_bad = Some((d, "different value".into())); break; } Err(e) => { first_bad = Some((d, e)); break; } }
            }
            cx.count(if envelope { "TraceED json depth (JSON-RPC response)" } else { "TraceED json depth (bare)" }, "deepest_readable", deepest_ok as u64);
            if let Some((d, e)) = first_bad {
                cx.fail(format!("json TraceED: a call trace nested {} frames deep serialises to JSON text that serde_json (the bundled client) cannot deserialise{}: {}", d, if envelope { " inside a JSON-RPC response" } else { "" }, e.chars().take(80).collect::<String>()),
                        json!({"type": "TraceED", "nesting": d, "deepest_readable": deepest_ok, "how": "TraceED{calls:[TraceED{calls:[...]}]} nested that many times, serde_json::to_string then from_str", "evm_call_depth_limit": 1024}));
            }
        }
        for x in &blocks { json_roundtrip(&mut cx, "BlockResponseED(hashes)", x, true); }
        for (i, x) in blocks.iter().enumerate() {
            let mut b = x.clone();
            let cnt = match &x.transactions { Either::Left(h) => h.len().min(6), _ => 0 };
            b.transactions = Either::Right((0..cnt).map(|j| txs[(i + j) % txs.len()].clone()).collect());
            json_roundtrip(&mut cx, "BlockResponseED(full)", &b, true);
        }
        // compositions the RPC interface returns (txpool_content, eth_getLogs, ...)
        for i in 0..n(6) {
            let mut pool: HashMap<String, HashMap<AddressED, HashMap<u64, TxED>>> = HashMap::new();
            for sect in ["pending", "queued"] {
                let mut by_addr = HashMap::new();
                for a in 0..(i % 3) { let mut by_nonce = HashMap::new(); for k in 0..=(a as u64) { by_nonce.insert(g_u64(&mut r) ^ k, txs[(i + a + k as usize) % txs.len()].clone()); } by_addr.insert(g_addr(&mut r), by_nonce); }
                pool.insert(sect.to_string(), by_addr);
            }
            json_roundtrip(&mut cx, "txpool_content", &pool, false);
            json_roundtrip(&mut cx, "Vec<LogED>", &g_vec(&mut r, 4, g_log), true);
            json_roundtrip(&mut cx, "Option<TxED>", &if i % 2 == 0 { None } else { Some(txs[i % txs.len()].clone()) }, true);
            { let tr = &traces[i % traces.len()]; json_roundtrip(&mut cx, "Option<TraceED>", &if i % 2 == 0 { None } else { Some(tr.clone()) }, tdepth(tr) <= 60); }
            json_roundtrip(&mut cx, "Vec<TxReceiptED>", &rcs.iter().skip(i).take(3).cloned().collect::<Vec<_>>(), true);
        }
        // request types
        let raws = [RawBytes::empty(), RawBytes::new("0x".into()), RawBytes::new("0x00ff".into()), RawBytes::new("not hex".into()), RawBytes::from_bytes(Bytes::from(vec![1u8, 2, 3]))];
        for x in &raws { json_roundtrip(&mut cx, "RawBytes", x, true); }
        let b64s = [Base64Bytes::empty(), Base64Bytes::new("".into()), Base64Bytes::new("AAEC".into()), Base64Bytes::new("AAEC==".into()), Base64Bytes::from_bytes(Bytes::from(vec![0u8; 100]))?];
        for x in &b64s { json_roundtrip(&mut cx, "Base64Bytes", x, true); }
        for i in 0..n(20) {
            let call = EthCall { from: g_opt(&mut r, g_addr), to: g_opt(&mut r, g_addr), data: if i % 4 == 0 { None } else { Some(raws[i % raws.len()].clone()) } };
            json_roundtrip(&mut cx, "EthCall", &call, true);
        }
        for v in [json!({"from": null, "to": "0x0000000000000000000000000000000000000001", "input": "0x01"}), json!({"data": "0x"}), json!({})] {
            match serde_json::from_value::<EthCall>(v.clone()) { Ok(c) => json_roundtrip(&mut cx, "EthCall", &c, true), Err(e) => cx.fail(format!("json EthCall: request form rejected: {}", e), v) }
        }
        for i in 0..n(12) {
            let mut m: HashMap<B256ED, RawBytes> = HashMap::new();
            for _ in 0..(i % 4) { m.insert(g_b256(&mut r), raws[(i + m.len()) % raws.len()].clone()); }
            let p = PrecompileData { op_return_tx_ids: g_vec(&mut r, 3, g_b256), bitcoin_tx_hexes: m };
            json_roundtrip(&mut cx, "PrecompileData", &p, false);
        }
        let h = |r: &mut Rng| -> Value { json!(format!("0x{}", hex::encode(g_fixed::<32>(r)))) };
        let filters = vec![
            json!({}), json!({"fromBlock": "latest", "toBlock": "0x10"}), json!({"fromBlock": null, "toBlock": null, "address": null, "topics": null}),
            json!({"address": "0x00000000000000000000000000000000000000ff", "topics": []}),
            json!({"topics": [h(&mut r)]}), json!({"topics": [null, h(&mut r)]}), json!({"topics": [[h(&mut r), h(&mut r)], null, [null], []]}),
            json!({"fromBlock": "0x0", "toBlock": "0x5", "address": "0x1111111111111111111111111111111111111111", "topics": [h(&mut r), [h(&mut r), null], h(&mut r), null]}),
        ];
        for v in filters {
            match serde_json::from_value::<GetLogsFilter>(v.clone()) { Ok(f) => json_roundtrip(&mut cx, "GetLogsFilter", &f, true), Err(e) => cx.fail(format!("json GetLogsFilter: filter rejected: {}", e), v) }
        }
    }

    // ---- values outside wf: what decode cannot give back (documents why wf is what it is)
    let mut outside_wf = BTreeMap::new();
    {
        let mut t = txs[5].clone(); t.chain_id = (chain + 1).into();
        if TxED::decode_vec(&t.encode_vec()).map(|d| d != t).unwrap_or(true) { outside_wf.insert("TxED with a chain_id other than the configured one", 1); }
        let mut t = txs[5].clone(); t.tx_type = 2u8.into();
        if TxED::decode_vec(&t.encode_vec()).map(|d| d != t).unwrap_or(true) { outside_wf.insert("TxED with type != 0", 1); }
        let mut rc = rcs[0].clone(); rc.effective_gas_price = 7u64.into();
        if TxReceiptED::decode_vec(&rc.encode_vec()).map(|d| d != rc).unwrap_or(true) { outside_wf.insert("TxReceiptED with effective_gas_price != 0", 1); }
        let mut b = blocks[1].clone(); b.size = 9u64.into(); b.difficulty = 3u64.into();
        if BlockResponseED::decode_vec(&b.encode_vec()).map(|d| d != b).unwrap_or(true) { outside_wf.insert("BlockResponseED with size/difficulty other than 0", 1); }
        let mut b = blocks[1].clone(); b.miner = [1u8; 20].into();
        if BlockResponseED::decode_vec(&b.encode_vec()).map(|d| d != b).unwrap_or(true) { outside_wf.insert("BlockResponseED with a never-stored field set", 1); }
        let mut b = blocks[1].clone(); b.transactions = Either::Right(vec![]);
        if catch_unwind(AssertUnwindSafe(|| b.encode_vec())).is_err() { outside_wf.insert("BlockResponseED with full transactions: encode panics", 1); }
    }

    std::fs::write(out.join("c14_cases.jsonl"), &cx.jsonl)?;
    let meta = json!({
        "files": cx.files,
        "evaluations": cx.evals,
        "distinct_nontrivial": cx.distinct.len(),
        "rule": "per persisted type: boundary values (0,1,255,256,2^32-1,2^32,2^64-1, all-ones limbs), empty and long byte strings, None/Some at every optional position (all combinations for TxED/TxReceiptED/TraceED), nested traces up to depth 40 (200 thorough), blocks with 0..300 transactions, histories with 0..11 entries, plus random values; each value is encoded by the implementation, decoded alone and inside a larger buffer at a non-zero offset, and the same is recomputed by the model. Derived buffers: truncations, single-byte changes of non-zero bytes, offsets past the end, hand-made invalid UTF-8 / flags / length fields / bytecode magic / unsorted histories; outcome class and re-encoding compared. Key pairs: all pairs of boundary values plus random pairs. A value case is non-trivial when its encoding is longer than one byte; distinct = distinct (type, encoding).",
        "per_type": cx.per_type,
        "decoder_outcomes_on_derived_buffers": cx.outcomes,
        "string_key_pairs_where_byte_order_differs_from_string_order": string_violations,
        "values_outside_wf_that_do_not_round_trip": outside_wf,
        "chain_id": chain,
        "decoder_took_the_process_down": {"count": cx.n_aborts, "what": "a derived buffer whose (misread) Vec length made Vec::with_capacity(length) fail: the process aborts, no panic to catch; decoded in a child process, not compared with the model", "samples": cx.aborts},
        "samples": cx.samples,
        "impl_failures": cx.failures,
    });
    std::fs::write(out.join("c14_meta.json"), serde_json::to_string_pretty(&meta)?)?;
    Ok(())
}
