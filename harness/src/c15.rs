//! C15 component tie: drives the published encoder (`Base64Bytes::from_bytes`), the decoder
//! (`decode_bytes_from_inscription_data`), `RawBytes`, `select_bytes`, the base64 engine and
//! the `nada` crate, records what they answer (and what zstd answered for the same queries:
//! the oracle graph of a case), writes the cases for the Coq model, and checks the property
//! itself on the implementation with an independent reference (the payload that went in).
use std::collections::{BTreeMap, HashSet};
use std::panic::{catch_unwind, AssertUnwindSafe};
use std::path::Path;
use std::time::Instant;

use base64::prelude::BASE64_STANDARD_NO_PAD;
use base64::Engine;
use brc20_prog::verif_hooks::{
    decode_bytes_from_inscription_data, select_bytes, Base64Bytes, RawBytes, CALLDATA_LIMIT,
};
use serde_json::{json, Value};

use crate::coqfmt as cf;
use crate::rng::Rng;

const L: usize = CALLDATA_LIMIT;
/// longest byte list / string that is still sent to the Coq model
const COQ_MAX: usize = 700;

type Val = Result<Option<Vec<u8>>, ()>; // Err(()) = panic

fn dec(s: &str) -> Val {
    catch_unwind(AssertUnwindSafe(|| decode_bytes_from_inscription_data(s).map(|b| b.to_vec()))).map_err(|_| ())
}
fn enc(x: &[u8]) -> Result<Result<String, String>, ()> {
    catch_unwind(AssertUnwindSafe(|| {
        Base64Bytes::from_bytes(x.to_vec().into()).map(|b| b.to_string()).map_err(|e| e.to_string())
    }))
    .map_err(|_| ())
}
fn sel(raw: &Option<Option<String>>, b64: &Option<Option<String>>) -> Result<Result<Option<Vec<u8>>, String>, ()> {
    let r = raw.as_ref().map(|o| match o { Some(s) => RawBytes::new(s.clone()), None => RawBytes::empty() });
    let b = b64.as_ref().map(|o| match o { Some(s) => Base64Bytes::new(s.clone()), None => Base64Bytes::empty() });
    catch_unwind(AssertUnwindSafe(|| select_bytes(&r, &b).map(|o| o.map(|x| x.to_vec())).map_err(|e| e.to_string()))).map_err(|_| ())
}

// ---- zstd, called the way the crate calls it: the oracle graph ----
fn z_compress_cap(x: &[u8], cap: usize, level: i32) -> Option<Vec<u8>> {
    let mut buf = vec![0u8; cap];
    zstd_safe::compress(buf.as_mut_slice(), x, level).ok().map(|n| { buf.truncate(n); buf })
}
fn z_compress_free(x: &[u8], level: i32) -> Vec<u8> {
    z_compress_cap(x, zstd_safe::compress_bound(x.len()).max(64), level).expect("zstd compress with compress_bound")
}
fn z_compress_nosize(x: &[u8]) -> Vec<u8> {
    let mut c = zstd_safe::CCtx::create();
    c.set_parameter(zstd_safe::CParameter::ContentSizeFlag(false)).expect("param");
    c.set_parameter(zstd_safe::CParameter::CompressionLevel(3)).expect("param");
    let mut buf = vec![0u8; zstd_safe::compress_bound(x.len()).max(64)];
    let n = c.compress2(buf.as_mut_slice(), x).expect("compress2");
    buf.truncate(n);
    buf
}
fn z_decompress_cap(z: &[u8], cap: usize) -> Option<Vec<u8>> {
    let mut buf = vec![0u8; cap];
    zstd_safe::decompress(buf.as_mut_slice(), z).ok().map(|n| { buf.truncate(n); buf })
}
fn z_frame_size(z: &[u8]) -> Option<Option<u64>> { zstd_safe::get_frame_content_size(z).ok() }

// ---- Coq term printing ----
fn t_bytes(x: &[u8]) -> String { cf::bytes(x) }
fn t_obytes(x: &Option<Vec<u8>>) -> String { cf::opt(x, |v| t_bytes(v)) }
fn t_val(v: &Val) -> String {
    match v { Err(()) => "None".into(), Ok(o) => format!("(Some {})", t_obytes(o)) }
}
fn t_zgraph(g: &[(Vec<u8>, usize, Option<Vec<u8>>)]) -> String {
    cf::list(g, |(s, c, r)| format!("({}, {}, {})", t_bytes(s), c, t_obytes(r)))
}
fn t_fgraph(g: &[(Vec<u8>, Option<Option<u64>>)]) -> String {
    cf::list(g, |(s, r)| format!("({}, {})", t_bytes(s), cf::opt(r, |o| cf::opt(o, |n| cf::n(*n)))))
}
fn t_oostr(x: &Option<Option<String>>) -> String { cf::opt(x, |o| cf::opt(o, |s| t_bytes(s.as_bytes()))) }

fn hexs(x: &[u8]) -> String { hex::encode(x) }
fn hex_prefix(x: &[u8]) -> String { hexs(&x[..x.len().min(24)]) }

struct Ctx {
    terms: Vec<String>,
    jsonl: String,
    next_id: u64,
    failures: BTreeMap<String, (u64, Value)>,
    counters: BTreeMap<String, u64>,
    distinct: HashSet<Vec<u8>>,
    impl_checks: u64,
}

impl Ctx {
    fn count(&mut self, k: &str) { *self.counters.entry(k.to_string()).or_default() += 1; }
    fn fail(&mut self, what: &str, case: Value) {
        // "smaller" = shorter payload if the case describes one, else shorter description
        fn rank(c: &Value) -> (u64, usize) {
            let len = c.pointer("/payload/len").or_else(|| c.pointer("/len")).and_then(|v| v.as_u64()).unwrap_or(0);
            (len, c.to_string().len())
        }
        let e = self.failures.entry(what.to_string()).or_insert((0, case.clone()));
        e.0 += 1;
        if rank(&case) < rank(&e.1) { e.1 = case; }
    }
    fn push(&mut self, kind: &str, term_of_id: impl Fn(u64) -> String, input: &[u8], j: Value) {
        let id = self.next_id;
        self.next_id += 1;
        self.terms.push(term_of_id(id));
        let mut o = j;
        o["id"] = json!(id);
        o["kind"] = json!(kind);
        self.jsonl.push_str(&o.to_string());
        self.jsonl.push('\n');
        self.count(kind);
        if !input.is_empty() {
            let mut key = kind.as_bytes().to_vec();
            key.push(0);
            key.extend_from_slice(input);
            self.distinct.insert(key);
        }
    }

    // ---- component cases ----
    fn b64_enc(&mut self, x: &[u8]) {
        if x.len() > COQ_MAX { return; }
        let s = BASE64_STANDARD_NO_PAD.encode(x);
        self.push("b64_enc", |id| format!("CB64Enc {} {} {}", id, t_bytes(x), t_bytes(s.as_bytes())), x, json!({"x": hexs(x), "out": s}));
    }
    fn b64_dec(&mut self, s: &[u8]) {
        if s.len() > COQ_MAX { return; }
        let out = BASE64_STANDARD_NO_PAD.decode(s).ok();
        self.push("b64_dec", |id| format!("CB64Dec {} {} {}", id, t_bytes(s), t_obytes(&out)), s,
            json!({"s": String::from_utf8_lossy(s), "s_hex": hexs(s), "out": out.as_ref().map(|v| hexs(v))}));
    }
    fn nada_enc(&mut self, x: &[u8]) {
        if x.len() > COQ_MAX { return; }
        let out = catch_unwind(AssertUnwindSafe(|| nada::encode(x.iter().cloned()))).ok();
        if out.is_none() { self.fail("panic: nada::encode panics", json!({"x": hexs(x)})); }
        self.push("nada_enc", |id| format!("CNadaEnc {} {} {}", id, t_bytes(x), t_obytes(&out)), x, json!({"x": hexs(x), "out": out.as_ref().map(|v| hexs(v))}));
    }
    fn nada_dec(&mut self, l: &[u8]) {
        if l.len() > COQ_MAX { return; }
        let out = nada::decode(l.iter().cloned()).ok();
        if out.as_ref().map(|o| o.len() > 4 * COQ_MAX).unwrap_or(false) { return; }
        self.push("nada_dec", |id| format!("CNadaDec {} {} {}", id, t_bytes(l), t_obytes(&out)), l, json!({"l": hexs(l), "out": out.as_ref().map(|v| hexs(v))}));
    }
    fn nada_dec_lim(&mut self, l: &[u8], limit: usize) {
        if l.len() > COQ_MAX { return; }
        let out = nada::decode_with_limit(l.iter().cloned(), limit).ok();
        if out.as_ref().map(|o| o.len() > 4 * COQ_MAX).unwrap_or(false) { return; }
        self.push("nada_dec_lim", |id| format!("CNadaDecLim {} {} {} {}", id, t_bytes(l), limit, t_obytes(&out)), l,
            json!({"l": hexs(l), "limit": limit, "out": out.as_ref().map(|v| hexs(v))}));
    }
    fn hex_enc(&mut self, x: &[u8]) {
        if x.len() > COQ_MAX { return; }
        let s = RawBytes::from_bytes(x.to_vec().into()).to_string();
        self.push("hex_enc", |id| format!("CHexEnc {} {} {}", id, t_bytes(x), t_bytes(s.as_bytes())), x, json!({"x": hexs(x), "out": s}));
    }
    fn hex_dec(&mut self, s: &str) {
        let r = sel(&Some(Some(s.to_string())), &None);
        let out = match r { Ok(Ok(o)) => o, _ => { self.fail("panic/err: select_bytes(Some(raw), None)", json!({"s": s})); return; } };
        self.push("hex_dec", |id| format!("CHexDec {} {} {}", id, t_bytes(s.as_bytes()), t_obytes(&out)), s.as_bytes(), json!({"s": s, "out": out.as_ref().map(|v| hexs(v))}));
    }

    /// the zstd queries the decoder makes for `s` (none unless the prefix byte is 0x02)
    fn decode_graph(s: &str) -> (Vec<(Vec<u8>, usize, Option<Vec<u8>>)>, Vec<(Vec<u8>, Option<Option<u64>>)>, bool) {
        let part = s.split_once('=').map(|x| x.0).unwrap_or(s);
        let mut zd = vec![];
        let mut zf = vec![];
        let mut small = true;
        if let Ok(d) = BASE64_STANDARD_NO_PAD.decode(part) {
            if d.first() == Some(&2) {
                let body = d[1..].to_vec();
                let f = z_frame_size(&body);
                let o = z_decompress_cap(&body, L);
                if o.as_ref().map(|v| v.len() > 4 * COQ_MAX).unwrap_or(false) { small = false; }
                zf.push((body.clone(), f));
                zd.push((body, L, o));
            }
        }
        (zd, zf, small)
    }

    /// one decode: impl-side checks (panic, bound, padding) + the Coq case if small
    fn decode_case(&mut self, s: &str, origin: &str) -> Val {
        let out = dec(s);
        self.impl_checks += 1;
        let desc = |s: &str| if s.len() <= 200 { json!({"string": s, "origin": origin}) } else { json!({"string_len": s.len(), "string_prefix": &s[..40.min(s.len())], "origin": origin}) };
        match &out {
            Err(()) => self.fail("F7 panic: decode_bytes_from_inscription_data panics (the part before the first '=' is empty)", desc(s)),
            Ok(Some(y)) if y.len() > L => self.fail("bound: decoded more than CALLDATA_LIMIT bytes", desc(s)),
            _ => {}
        }
        if s.len() <= COQ_MAX {
            let (zd, zf, small) = Self::decode_graph(s);
            if small && out.as_ref().map(|o| o.as_ref().map(|y| y.len() <= 4 * COQ_MAX).unwrap_or(true)).unwrap_or(true) {
                self.push("decode", |id| format!("CDecode {} {} {} {} {}", id, t_bytes(s.as_bytes()), t_zgraph(&zd), t_fgraph(&zf), t_val(&out)), s.as_bytes(),
                    json!({"s": s, "origin": origin, "out": match &out { Err(()) => json!("panic"), Ok(o) => json!(o.as_ref().map(|v| hexs(v))) }}));
            }
        }
        out
    }

    /// padding irrelevance on the implementation: s has no '='
    fn padding_check(&mut self, s: &str, base: &Val, rng: &mut Rng, origin: &str) {
        for pad in ["=", "==", "===", "=======", "=A", "==\n", "=!garbage="] {
            if s.len() > 4096 && rng.chance(5, 7) { continue; }
            let t = format!("{}{}", s, pad);
            let o = if t.len() <= COQ_MAX && rng.chance(1, 3) { self.decode_case(&t, "padded") } else { self.impl_checks += 1; dec(&t) };
            if &o != base {
                let c = if s.len() <= 200 { json!({"string": s, "pad": pad, "origin": origin}) } else { json!({"string_len": s.len(), "pad": pad, "origin": origin}) };
                if o.is_err() {
                    self.fail("F7 panic: decode_bytes_from_inscription_data panics (the part before the first '=' is empty)", c);
                } else {
                    self.fail("padding: trailing '=' changes the decoded value", c);
                }
            }
        }
    }

    fn encode_case(&mut self, x: &[u8]) -> Result<Result<String, String>, ()> {
        let out = enc(x);
        self.impl_checks += 1;
        if x.len() <= COQ_MAX {
            let zc = vec![(x.to_vec(), L, z_compress_cap(x, L, 22))];
            let t = match &out { Err(()) => "None".to_string(), Ok(Err(_)) => "(Some None)".into(), Ok(Ok(s)) => format!("(Some (Some {}))", t_bytes(s.as_bytes())) };
            self.push("encode", |id| format!("CEncode {} {} {} {}", id, t_bytes(x), t_zgraph(&zc), t), x,
                json!({"x": hexs(x), "out": match &out { Err(()) => json!("panic"), Ok(Err(e)) => json!({"err": e}), Ok(Ok(s)) => json!(s) }}));
        }
        out
    }

    fn select_case(&mut self, raw: Option<Option<String>>, b64: Option<Option<String>>) {
        let out = sel(&raw, &b64);
        self.impl_checks += 1;
        let (zd, zf, small) = match &b64 { Some(Some(s)) => Self::decode_graph(s), _ => (vec![], vec![], true) };
        if !small { return; }
        let t = match &out { Err(()) => "None".to_string(), Ok(Err(_)) => "(Some None)".into(), Ok(Ok(o)) => format!("(Some (Some {}))", t_obytes(o)) };
        let key: Vec<u8> = format!("{:?}{:?}", raw, b64).into_bytes();
        self.push("select", |id| format!("CSelect {} {} {} {} {} {}", id, t_oostr(&raw), t_oostr(&b64), t_zgraph(&zd), t_fgraph(&zf), t), &key,
            json!({"raw": raw, "b64": b64, "out": match &out { Err(()) => json!("panic"), Ok(Err(e)) => json!({"err": e}), Ok(Ok(o)) => json!(o.as_ref().map(|v| hexs(v))) }}));
    }

    /// everything about one small payload
    fn payload(&mut self, x: &[u8], gen: &str, rng: &mut Rng) {
        self.count(&format!("payload.{}", gen));
        self.b64_enc(x);
        self.nada_enc(x);
        self.hex_enc(x);
        let ne = nada::encode(x.iter().cloned());
        self.nada_dec(&ne);
        self.nada_dec(x);
        for lim in [0usize, 1, x.len().saturating_sub(1), x.len(), x.len() + 1] {
            self.nada_dec_lim(&ne, lim);
        }
        self.nada_dec_lim(x, rng.range(0, x.len() as u64 + 2) as usize);
        let pdesc = json!({"payload": hexs(x), "generator": gen});
        // through the published encoder
        match self.encode_case(x) {
            Ok(Ok(s)) => {
                let d = self.decode_case(&s, "from_bytes");
                if d != Ok(Some(x.to_vec())) && !d.is_err() {
                    self.fail("round trip: decode(from_bytes(x)) != x for a small payload", pdesc.clone());
                }
                self.b64_dec(s.as_bytes());
                self.padding_check(&s, &d, rng, "from_bytes");
                // hex field vs base64 field
                let h = RawBytes::from_bytes(x.to_vec().into()).to_string();
                let a = sel(&Some(Some(h.clone())), &None);
                let b = sel(&None, &Some(Some(s.clone())));
                if a != b { self.fail("hex/base64: select_bytes differs between the hex field and the base64 field for the same bytes", pdesc.clone()); }
                if rng.chance(1, 4) {
                    self.select_case(Some(Some(h.clone())), None);
                    self.select_case(None, Some(Some(s.clone())));
                    self.select_case(Some(Some(h)), Some(Some(s)));
                }
            }
            Ok(Err(e)) => self.fail("encoder: from_bytes returns Err for a small payload", json!({"payload": hexs(x), "err": e})),
            Err(()) => self.fail("panic: from_bytes panics", pdesc.clone()),
        }
        // hand-packed, every branch
        let mut packs: Vec<(u8, Vec<u8>, bool)> = vec![(0, x.to_vec(), true), (1, ne.clone(), true), (2, z_compress_free(x, 22), true), (2, z_compress_nosize(x), true)];
        packs.push((1, x.to_vec(), false)); // arbitrary bytes as a nada stream
        packs.push((2, x.to_vec(), false)); // arbitrary bytes as a zstd frame
        for p in [3u8, 4, 0x7f, 0x80, 0xff, rng.range(3, 255) as u8] { packs.push((p, x.to_vec(), false)); }
        for (p, body, valid) in packs {
            let mut d = vec![p];
            d.extend_from_slice(&body);
            let s = BASE64_STANDARD_NO_PAD.encode(&d);
            let o = self.decode_case(&s, "hand-packed");
            if valid && o != Ok(Some(x.to_vec())) && !o.is_err() {
                self.fail("branch: a valid hand-packed small payload does not decode to itself", json!({"prefix": p, "payload": hexs(x)}));
            }
            if p > 2 && o != Ok(None) && !o.is_err() {
                self.fail("unknown prefix: decoder returned a value", json!({"prefix": p, "payload": hexs(x)}));
            }
            if rng.chance(1, 6) { self.padding_check(&s, &o, rng, "hand-packed"); }
        }
    }
}

// ---- small payload generators ----
fn small_payloads(rng: &mut Rng, thorough: bool) -> Vec<(String, Vec<u8>)> {
    let mut v: Vec<(String, Vec<u8>)> = vec![("empty".into(), vec![])];
    for b in 0..=255u8 { v.push(("one-byte".into(), vec![b])); }
    let k = if thorough { 6 } else { 1 };
    for n in 2..=9usize { for _ in 0..3 * k { v.push(("random-short".into(), (0..n).map(|_| rng.below(256) as u8).collect())); } }
    for n in [1usize, 2, 3, 4, 5, 6, 100, 253, 254, 255, 256, 257, 258, 300, 509, 510, 511, 512] { v.push(("zeros".into(), vec![0; n])); }
    for n in [1usize, 2, 3, 4, 5, 6, 7, 50, 199, 200] { v.push(("all-ff".into(), vec![0xff; n])); }
    for n in [254usize, 255, 256] { let mut x = vec![0; n]; x.push(0xff); x.extend(vec![0; 3]); v.push(("zeros-ff-zeros".into(), x)); }
    for pat in [vec![0u8, 0xff], vec![0xff, 0], vec![0, 0, 0xff], vec![0xff, 0xff, 0], vec![0, 0, 0, 1], vec![1, 0, 0], vec![0xde, 0xad, 0xbe, 0xef], vec![0x61, 0x62, 0x63, 0x64], vec![0xff, 1], vec![0xff, 0xff, 2], vec![0xff, 3], vec![0xfe, 0xff, 0, 1]] {
        for reps in [1usize, 2, 3, 10, 40] { v.push(("repetitive".into(), pat.iter().cloned().cycle().take(pat.len() * reps).collect())); }
    }
    for _ in 0..150 * k { // alphabet {0, ff, 1, 2, 3, fe}: the nada state machine
        let n = rng.range(0, 40) as usize;
        v.push(("nada-alphabet".into(), (0..n).map(|_| *rng.pick(&[0u8, 0, 0, 0xff, 0xff, 1, 2, 3, 0xfe])).collect()));
    }
    for _ in 0..80 * k { // zero-heavy with runs
        let mut x = vec![];
        let n = rng.range(0, 200) as usize;
        while x.len() < n {
            if rng.chance(1, 2) { let r = *rng.pick(&[1u64, 2, 3, 4, 7, 30]); for _ in 0..r { x.push(0); } } else { x.push(rng.below(256) as u8); }
        }
        v.push(("zero-heavy".into(), x));
    }
    for _ in 0..80 * k { let n = rng.range(0, 200) as usize; v.push(("random".into(), (0..n).map(|_| rng.below(256) as u8).collect())); }
    for _ in 0..20 * k { let n = rng.range(0, 200) as usize; v.push(("random-nonzero".into(), (0..n).map(|_| rng.range(1, 254) as u8).collect())); }
    v
}

const B64_ALPHABET: &[u8] = b"ABCDEFGHIJKLMNOPQRSTUVWXYZabcdefghijklmnopqrstuvwxyz0123456789+/";

fn malformed_strings(rng: &mut Rng, thorough: bool) -> Vec<(String, String)> {
    let mut v: Vec<(String, String)> = vec![];
    // every 1-character ASCII string, every 2-character string over alphabet + a few others:
    // the 2-character ones decode to a single byte, i.e. every prefix byte with an empty body
    for c in 0..128u8 { v.push(("one-char".into(), (c as char).to_string())); }
    let mut two: Vec<u8> = B64_ALPHABET.to_vec();
    two.extend_from_slice(b"=-_ \n.");
    for &a in &two { for &b in &two { v.push(("two-char".into(), format!("{}{}", a as char, b as char))); } }
    for s in ["", "=", "==", "=AAAA", "====", "A", "A=", "AA=", "AAA=", "AAAA=", "AA==", "AA=A", "AAAAA", "AAAAAA", "AAAAAAA", "AAAA AAAA", "AAAA\n", "\nAAAA", "AAAA\u{e9}", "\u{e9}", "AA\u{3d}\u{3d}AA", "invalid_base64", "AN6tvu//", "AN6tvu//====", "AN6tvu/", "AN6tvu", "AN6tv", "AN6t", "AN6", "AN", "-_-_", "AN6tvu_-"] {
        v.push(("fixed".into(), s.to_string()));
    }
    let n = if thorough { 3000 } else { 500 };
    for _ in 0..n {
        // start from a canonical encoding of a random vector with a random prefix byte, then damage it
        let len = rng.range(0, 24) as usize;
        let mut d: Vec<u8> = (0..len).map(|_| rng.below(256) as u8).collect();
        if !d.is_empty() && rng.chance(3, 4) { d[0] = rng.below(4) as u8; }
        let mut s = BASE64_STANDARD_NO_PAD.encode(&d).into_bytes();
        let kind = rng.below(7);
        match kind {
            0 => { let k = rng.range(1, 3) as usize; let n = s.len().saturating_sub(k); s.truncate(n); }
            1 => { if !s.is_empty() { let i = rng.below(s.len() as u64) as usize; s[i] = *rng.pick(b" \n-_.=@[`{\0~!,"); } }
            2 => { let i = rng.below(s.len() as u64 + 1) as usize; s.insert(i, b'='); }
            3 => { if let Some(l) = s.last_mut() { *l = *rng.pick(B64_ALPHABET); } } // trailing bits
            4 => { let i = rng.below(s.len() as u64 + 1) as usize; s.insert(i, *rng.pick(B64_ALPHABET)); }
            5 => { let t: &str = *rng.pick(&["=", "==", "===", "=x", "= ", "\n"]); s.extend_from_slice(t.as_bytes()); }
            _ => { let n = rng.range(0, 12) as usize; s = (0..n).map(|_| rng.range(32, 126) as u8).collect(); }
        }
        v.push((format!("damaged-{}", kind), String::from_utf8(s).unwrap()));
    }
    // non-canonical trailing bits, exhaustively for one 2-symbol and one 3-symbol tail
    for &c in B64_ALPHABET { v.push(("trailing-bits".into(), format!("AAAAA{}", c as char))); v.push(("trailing-bits".into(), format!("AAAAAA{}", c as char))); }
    v
}

fn nada_streams() -> Vec<Vec<u8>> {
    // every list over a 7-letter alphabet up to length 4
    let a = [0u8, 1, 2, 3, 7, 0xfe, 0xff];
    let mut out: Vec<Vec<u8>> = vec![vec![]];
    let mut frontier: Vec<Vec<u8>> = vec![vec![]];
    for _ in 0..4 {
        let mut next = vec![];
        for l in &frontier { for &b in &a { let mut m = l.clone(); m.push(b); next.push(m); } }
        out.extend(next.iter().cloned());
        frontier = next;
    }
    out
}

// ---- big payloads: implementation only ----
fn big_payload(kind: &str, len: usize, seed: u64) -> Vec<u8> {
    let mut rng = Rng::new(seed ^ 0xC15);
    match kind {
        "random" => (0..len).map(|_| rng.next() as u8).collect(),
        "random-nonzero" => (0..len).map(|_| (rng.below(254) + 1) as u8).collect(),
        "zeros" => vec![0; len],
        "all-ff" => vec![0xff; len],
        "pattern" => [0xde, 0xad, 0xbe, 0xef].iter().cloned().cycle().take(len).collect(),
        "zero-heavy" => (0..len).map(|_| if rng.chance(9, 10) { 0 } else { rng.next() as u8 }).collect(),
        "sparse-zero-runs" => {
            // incompressible noise without 00/ff, with zero runs of 3..255 at random gaps of 64..8000:
            // nada beats zstd -22 by a few hundred bytes, both fit the buffer
            let mut y: Vec<u8> = Vec::with_capacity(len + 9000);
            while y.len() < len {
                for _ in 0..rng.range(64, 8000) { y.push((rng.below(254) + 1) as u8); }
                for _ in 0..rng.range(3, 255) { y.push(0); }
            }
            y.truncate(len);
            y
        }
        _ => panic!("unknown generator"),
    }
}

struct BigResult { failures: Vec<(String, Value)>, checks: u64, notes: Vec<Value> }

fn big_desc(kind: &str, len: usize, seed: u64, x: &[u8]) -> Value {
    json!({"generator": kind, "len": len, "len_minus_limit": len as i64 - L as i64, "seed": seed, "hex_prefix": hex_prefix(x)})
}

/// the property on one big payload: round trip through from_bytes, and through each branch packed by hand
fn big_check(kind: &str, len: usize, seed: u64, hand: bool) -> BigResult {
    let x = big_payload(kind, len, seed);
    let d = big_desc(kind, len, seed, &x);
    let mut r = BigResult { failures: vec![], checks: 0, notes: vec![] };
    let within = len <= L;
    let t0 = Instant::now();
    // the hex field: a payload within the limit submitted as hex selects exactly its bytes (what the base64 field
    // of the same payload decodes to is checked below against the same bytes)
    if within {
        let h = RawBytes::from_bytes(x.clone().into()).to_string();
        r.checks += 1;
        match sel(&Some(Some(h)), &None) {
            Ok(Ok(Some(y))) if y == x => {}
            Err(()) => r.failures.push(("panic: select_bytes panics on the hex field of a big payload".into(), d.clone())),
            other => r.failures.push((format!("hex/base64: the hex field of a payload of {} bytes (within the limit) does not select the payload's bytes but {}", len,
                match other { Ok(Ok(None)) => "no payload at all".to_string(), Ok(Ok(Some(y))) => format!("{} other bytes", y.len()), Ok(Err(e)) => format!("the error {}", e), Err(()) => unreachable!() }), d.clone())),
        }
    }
    r.checks += 1;
    match enc(&x) {
        Err(()) => r.failures.push(("panic: from_bytes panics".into(), d.clone())),
        Ok(Err(e)) => {
            if within { r.failures.push(("encoder: from_bytes returns Err for a payload within the limit (zstd output does not fit its CALLDATA_LIMIT buffer)".into(), json!({"payload": d, "err": e}))); }
            r.notes.push(json!({"payload": d, "from_bytes": "Err"}));
        }
        Ok(Ok(s)) => {
            let prefix = BASE64_STANDARD_NO_PAD.decode(&s[..4.min(s.len())]).ok().and_then(|v| v.first().cloned());
            let o = dec(&s);
            r.checks += 1;
            r.notes.push(json!({"payload": d, "from_bytes_prefix": prefix, "encoded_len": s.len(), "decoded_equal": o == Ok(Some(x.clone())), "ms": t0.elapsed().as_millis() as u64}));
            match &o {
                Err(()) => r.failures.push(("panic: decode panics on a from_bytes output".into(), d.clone())),
                Ok(Some(y)) if y.len() > L => r.failures.push(("bound: decoded more than CALLDATA_LIMIT bytes".into(), d.clone())),
                Ok(y) => {
                    if within && y.as_ref() != Some(&x) {
                        let which = match prefix { Some(0) => "raw", Some(1) => "nada", Some(2) => "zstd", _ => "?" };
                        r.failures.push((format!("F12 round trip: from_bytes picked {} for a payload of {} bytes within the limit and the decoder returned {}", which, if len == L { "exactly CALLDATA_LIMIT".to_string() } else { format!("CALLDATA_LIMIT{:+}", len as i64 - L as i64) }, if y.is_none() { "None" } else { "other bytes" }), d.clone()));
                    }
                    if !within && y.is_some() { r.failures.push(("bound: a payload above the limit was decoded".into(), d.clone())); }
                }
            }
            // padding on the big string
            let o2 = dec(&format!("{}==", s));
            r.checks += 1;
            if o2 != o { r.failures.push(("padding: trailing '=' changes the decoded value".into(), d.clone())); }
        }
    }
    if hand {
        let packs: Vec<(&str, u8, Vec<u8>)> = vec![
            ("raw", 0, x.clone()),
            ("nada", 1, nada::encode(x.iter().cloned())),
            ("zstd", 2, z_compress_free(&x, 3)),
        ];
        for (name, p, body) in packs {
            let mut dd = vec![p];
            dd.extend_from_slice(&body);
            let s = BASE64_STANDARD_NO_PAD.encode(&dd);
            let o = dec(&s);
            r.checks += 1;
            match &o {
                Err(()) => r.failures.push((format!("panic: decode panics on a hand-packed {} payload", name), d.clone())),
                Ok(Some(y)) if y.len() > L => r.failures.push(("bound: decoded more than CALLDATA_LIMIT bytes".into(), d.clone())),
                Ok(y) => {
                    if within && y.as_ref() != Some(&x) {
                        r.failures.push((format!("F12 branch bound: a {}-packed payload of {} bytes is refused (every branch must accept up to CALLDATA_LIMIT)", name, if len == L { "exactly CALLDATA_LIMIT".to_string() } else { format!("CALLDATA_LIMIT{:+}", len as i64 - L as i64) }), json!({"payload": d, "branch": name})));
                    }
                    if !within && y.is_some() { r.failures.push(("bound: a payload above the limit was decoded".into(), json!({"payload": d, "branch": name}))); }
                }
            }
        }
    }
    r
}

fn bombs() -> BigResult {
    let mut r = BigResult { failures: vec![], checks: 0, notes: vec![] };
    let mut one = |name: &str, prefix: u8, body: Vec<u8>, expect_len: Option<usize>| {
        let mut d = vec![prefix];
        d.extend_from_slice(&body);
        let s = BASE64_STANDARD_NO_PAD.encode(&d);
        let t0 = Instant::now();
        let o = dec(&s);
        let ms = t0.elapsed().as_millis() as u64;
        r.checks += 1;
        r.notes.push(json!({"bomb": name, "input_bytes": d.len(), "result": match &o { Err(()) => "panic".to_string(), Ok(None) => "None".into(), Ok(Some(y)) => format!("Some({} bytes)", y.len()) }, "ms": ms}));
        let c = json!({"bomb": name, "input_bytes": d.len(), "hex_prefix": hex_prefix(&d)});
        match (&o, expect_len) {
            (Err(()), _) => r.failures.push(("panic: decode panics on a decompression bomb".into(), c)),
            (Ok(Some(y)), _) if y.len() > L => r.failures.push(("bound: decoded more than CALLDATA_LIMIT bytes".into(), c)),
            (Ok(Some(y)), Some(n)) if y.len() == n => {}
            (Ok(None), None) => {}
            (Ok(None), Some(n)) if n == L => r.failures.push((format!("F12 branch bound: a {} is refused (every branch must accept up to CALLDATA_LIMIT)", name), c)),
            _ => r.failures.push(("bomb: unexpected result".into(), c)),
        }
        if ms > 5000 { r.failures.push(("bomb: decoding took more than 5 s".into(), json!({"bomb": name, "ms": ms}))); }
    };
    for (mib, n) in [("2MiB", 2usize << 20), ("64MiB", 64 << 20)] {
        let z = z_compress_free(&vec![0u8; n], 3);
        one(&format!("zstd frame of {} zeros", mib), 2, z, None);
    }
    one("zstd frame of CALLDATA_LIMIT zeros", 2, z_compress_free(&vec![0u8; L], 3), Some(L));
    one("zstd frame of CALLDATA_LIMIT+1 zeros", 2, z_compress_free(&vec![0u8; L + 1], 3), None);
    one("zstd frame without content size of 2MiB zeros", 2, z_compress_nosize(&vec![0u8; 2 << 20]), None);
    one("zstd frame without content size of CALLDATA_LIMIT zeros", 2, z_compress_nosize(&vec![0u8; L]), Some(L));
    // just above the limit, within one zstd block (128 KiB) of it and a little beyond: a decoder that checks the
    // bound only between blocks lets these through
    for extra in [1usize, 1000, 100_000, 131_072, 131_073, 300_000] {
        one(&format!("zstd frame without content size of CALLDATA_LIMIT+{} zeros", extra), 2, z_compress_nosize(&vec![0u8; L + extra]), None);
    }
    // frame headers that DECLARE an absurd content size (8-byte size field, single segment): the declared size
    // must never drive an allocation; the payload is refused like any other oversized one
    for declared in [1u64 << 63, u64::MAX - 1, (1u64 << 62) + 12345] {
        let mut f: Vec<u8> = vec![0x28, 0xB5, 0x2F, 0xFD, 0xC0 | 0x20]; // magic, FCS_flag = 3 (8 bytes), single segment
        f.extend_from_slice(&declared.to_le_bytes());
        f.extend_from_slice(&[0x01, 0x00, 0x00]); // last block, raw, size 0
        one(&format!("zstd frame whose header declares {} bytes", declared), 2, f, None);
    }
    one("zstd frame without content size of 300000 patterned bytes", 2, z_compress_nosize(&(0..300_000usize).map(|i| (i % 251) as u8).collect::<Vec<u8>>()), Some(300_000));
    { // two frames, each announcing 600 KiB
        let f = z_compress_free(&vec![7u8; 600 << 10], 3);
        let mut two = f.clone(); two.extend_from_slice(&f);
        one("two concatenated zstd frames of 600KiB each", 2, two, None);
        let g = z_compress_free(&vec![7u8; 400 << 10], 3);
        let mut two = g.clone(); two.extend_from_slice(&g);
        one("two concatenated zstd frames of 400KiB each", 2, two, Some(800 << 10));
    }
    let nada_zeros = |n: usize| { let mut b = vec![]; let mut left = n; while left > 0 { let k = left.min(255); if k >= 3 { b.extend_from_slice(&[0xff, k as u8]); } else { for _ in 0..k { b.push(0); } } left -= k; } b };
    one("nada stream of 16MiB zeros", 1, nada_zeros(16 << 20), None);
    one("nada stream of CALLDATA_LIMIT+1 zeros", 1, nada_zeros(L + 1), None);
    one("nada stream of CALLDATA_LIMIT zeros", 1, nada_zeros(L), Some(L));
    one("nada stream of CALLDATA_LIMIT-1 zeros", 1, nada_zeros(L - 1), Some(L - 1));
    r
}


// ---- engine level: the same bytes through the hex field and through the base64 field ----
/// Three engines in one process (own databases), driven through the RPC method table with raw
/// JSON requests: A submits every payload in the hex field, B in the base64 field (packed by
/// from_bytes), C in the base64 field with '=' padding appended. Every response must be identical.
fn engine_twins() -> (Vec<(String, Value)>, Value) {
    use brc20_prog::verif_hooks::{set_config, verif_rpc_methods, BRC20ProgEngine, Brc20ProgConfig, Brc20ProgDatabase};
    let mut failures: Vec<(String, Value)> = vec![];
    let mut cfg = Brc20ProgConfig::from_env();
    cfg.fail_on_bitcoin_rpc_error = false;
    cfg.evm_record_traces = true;
    set_config(cfg);
    let rt = match tokio::runtime::Builder::new_multi_thread().worker_threads(2).enable_all().build() { Ok(r) => r, Err(e) => return (failures, json!({"skipped": e.to_string()})) };
    let dirs: Vec<tempfile::TempDir> = (0..3).map(|_| tempfile::tempdir().expect("tempdir")).collect();
    let mut methods = vec![];
    for d in &dirs {
        let db = match Brc20ProgDatabase::new(d.path()) { Ok(d) => d, Err(e) => return (failures, json!({"skipped": e.to_string()})) };
        methods.push(verif_rpc_methods(BRC20ProgEngine::new(db)));
    }
    let call = |m: &jsonrpsee::Methods, method: &str, params: Value| -> Value {
        let req = json!({"jsonrpc": "2.0", "id": 1, "method": method, "params": params}).to_string();
        let r = catch_unwind(AssertUnwindSafe(|| rt.block_on(async { m.raw_json_request(&req, 1).await.map(|(r, _)| r.get().to_string()) })));
        match r {
            Err(_) => json!({"panic": true}),
            Ok(Err(e)) => json!({"bad_request": e.to_string()}),
            Ok(Ok(s)) => { let v: Value = serde_json::from_str(&s).unwrap_or(json!({"unparsable": s})); json!({"result": v.get("result").cloned(), "error": v.get("error").cloned()}) }
        }
    };
    // field encodings per engine
    let fields = |mode: usize, x: &[u8]| -> (Value, Value) {
        match mode {
            0 => (json!(format!("0x{}", hex::encode(x))), Value::Null),
            1 => (Value::Null, json!(Base64Bytes::from_bytes(x.to_vec().into()).map(|b| b.to_string()).unwrap_or_default())),
            _ => (Value::Null, json!(format!("{}==", Base64Bytes::from_bytes(x.to_vec().into()).map(|b| b.to_string()).unwrap_or_default()))),
        }
    };
    let zero32 = format!("0x{}", "00".repeat(32));
    let pk = "7465737420706b736372697074";
    let mut steps: Vec<Value> = vec![];
    let mut compare = |name: &str, rs: &[Value], failures: &mut Vec<(String, Value)>| {
        let same = rs.iter().all(|r| r == &rs[0]);
        let panicked = rs.iter().any(|r| r.get("panic").is_some());
        steps.push(json!({"step": name, "identical": same, "ok": rs[0].get("error").map(|e| e.is_null()).unwrap_or(false)}));
        if panicked && !name.starts_with("call with base64_data") { failures.push(("engine: a request panicked".into(), json!({"step": name}))); }
        if !same { failures.push(("engine: the hex field and the base64 field (with or without padding) gave different responses for the same bytes".into(), json!({"step": name, "hex": rs[0].to_string().chars().take(300).collect::<String>(), "base64": rs[1].to_string().chars().take(300).collect::<String>(), "base64_padded": rs[2].to_string().chars().take(300).collect::<String>()}))); }
    };
    // tiny contract: runtime returns 42; 3000 trailing zero bytes make the packed form differ a lot from the raw one
    let mut deploy1 = hex::decode("600a600c600039600a6000f3602a60005260206000f3").unwrap();
    deploy1.extend(vec![0u8; 3000]);
    let helper = std::fs::read_to_string("/repo/test_utils/data/brc20_prog_helper_deploy_tx_data").ok().and_then(|s| hex::decode(s.trim().trim_start_matches("0x")).ok());
    let mut tx_idx = 0u64;
    let mut addr: Vec<Option<Value>> = vec![None, None];
    let mut deploys: Vec<(String, Vec<u8>)> = vec![("deploy tiny contract + 3000 zero bytes".into(), deploy1)];
    if let Some(h) = helper { deploys.push(("deploy BRC20_Prog helper contract (test_utils data)".into(), h)); }
    for (k, (name, data)) in deploys.iter().enumerate() {
        let rs: Vec<Value> = (0..3).map(|m| { let (d, b) = fields(m, data); call(&methods[m], "brc20_deploy", json!([pk, d, b, 42, zero32, tx_idx, format!("insc{}", tx_idx), data.len() as u64 * 2, format!("0x{}", "01".repeat(32))])) }).collect();
        addr[k] = rs[0].pointer("/result/contractAddress").cloned();
        compare(name, &rs, &mut failures);
        tx_idx += 1;
    }
    for (name, to, data) in [("call tiny contract", addr[0].clone(), vec![0xdbu8, 0xdf, 0xf2, 0xc1]), ("call with empty data", addr[0].clone(), vec![]), ("call helper contract", addr[1].clone(), vec![0xdb, 0xdf, 0xf2, 0xc1]), ("call a non-existent contract with zero-heavy data", Some(json!("0x00000000000000000000000000000000000000aa")), { let mut v = vec![0u8; 500]; v[7] = 0xff; v[8] = 0xff; v[9] = 0xff; v }) ] {
        if to.is_none() { continue; }
        let rs: Vec<Value> = (0..3).map(|m| { let (d, b) = fields(m, &data); call(&methods[m], "brc20_call", json!([pk, to, Value::Null, d, b, 42, zero32, tx_idx, format!("insc{}", tx_idx), 1000, format!("0x{}", "02".repeat(32))])) }).collect();
        let added = rs[0].get("result").map(|r| !r.is_null()).unwrap_or(false);
        compare(name, &rs, &mut failures);
        if added { tx_idx += 1; }
    }
    {
        let data = vec![0x02u8, 0xf8, 0x00, 0x01, 0x02];
        let rs: Vec<Value> = (0..3).map(|m| { let (d, b) = fields(m, &data); call(&methods[m], "brc20_transact", json!([d, b, 42, zero32, tx_idx, format!("insc{}", tx_idx), 1000, format!("0x{}", "03".repeat(32))])) }).collect();
        compare("transact with an undecodable raw transaction", &rs, &mut failures);
    }
    // an empty base64 string / a lone '=': must be answered (as "no data"), not panic
    for (i, b) in ["", "=", "=AAAA"].iter().enumerate() {
        let rs: Vec<Value> = (0..3).map(|m| call(&methods[m], "brc20_call", json!([pk, addr[0], Value::Null, Value::Null, b, 42, zero32, tx_idx, format!("empty{}", i), 1000, zero32]))).collect();
        let added = rs[0].get("result").map(|r| !r.is_null()).unwrap_or(false);
        if rs.iter().any(|r| r.get("panic").is_some()) {
            failures.push(("F7 panic: decode_bytes_from_inscription_data panics (the part before the first '=' is empty)".into(), json!({"rpc": "brc20_call", "base64_data": b})));
        }
        compare(&format!("call with base64_data = {:?}", b), &rs, &mut failures);
        if added { tx_idx += 1; }
    }
    // both fields / neither field: an error on every engine, no transaction
    {
        let rs: Vec<Value> = (0..3).map(|m| call(&methods[m], "brc20_call", json!([pk, addr[0], Value::Null, "0x00", "AAA", 42, zero32, tx_idx, "both", 1000, zero32]))).collect();
        compare("call with both fields", &rs, &mut failures);
        if rs[0].get("error").map(|e| e.is_null()).unwrap_or(true) { failures.push(("engine: a call with both the hex and the base64 field was accepted".into(), json!({"response": rs[0]}))); }
        let rs: Vec<Value> = (0..3).map(|m| call(&methods[m], "brc20_call", json!([pk, addr[0], Value::Null, Value::Null, Value::Null, 42, zero32, tx_idx, "neither", 1000, zero32]))).collect();
        compare("call with neither field", &rs, &mut failures);
        if rs[0].get("error").map(|e| e.is_null()).unwrap_or(true) { failures.push(("engine: a call with neither field was accepted".into(), json!({"response": rs[0]}))); }
    }
    let rs: Vec<Value> = (0..3).map(|m| call(&methods[m], "brc20_finaliseBlock", json!([42, zero32, tx_idx]))).collect();
    compare("finalise block", &rs, &mut failures);
    let rs: Vec<Value> = (0..3).map(|m| call(&methods[m], "eth_getBlockByNumber", json!(["0x0", true]))).collect();
    // mineTimestamp is the wall-clock time the block took to build: not part of the comparison
    let rs: Vec<Value> = rs.into_iter().map(|mut r| { if let Some(o) = r.pointer_mut("/result").and_then(|x| x.as_object_mut()) { o.remove("mineTimestamp"); } r }).collect();
    compare("block 0 with full transactions (mineTimestamp excluded)", &rs, &mut failures);
    let hashes: Vec<Value> = rs[0].pointer("/result/transactions").and_then(|t| t.as_array()).map(|a| a.iter().filter_map(|t| t.get("hash").cloned()).collect()).unwrap_or_default();
    for h in &hashes {
        let rs: Vec<Value> = (0..3).map(|m| call(&methods[m], "eth_getTransactionReceipt", json!([h]))).collect();
        compare("receipt", &rs, &mut failures);
        let rs: Vec<Value> = (0..3).map(|m| call(&methods[m], "debug_traceTransaction", json!([h]))).collect();
        compare("trace", &rs, &mut failures);
    }
    let n_tx = hashes.len();
    drop(methods);
    (failures, json!({"engines": 3, "transactions_in_block": n_tx, "steps": steps}))
}

pub fn run(out: &Path, seed: u64, thorough: bool) -> Result<(), Box<dyn std::error::Error>> {
    std::panic::set_hook(Box::new(|_| {}));
    let t_start = Instant::now();
    let mut rng = Rng::new(seed);
    let mut cx = Ctx { terms: vec![], jsonl: String::new(), next_id: 0, failures: BTreeMap::new(), counters: BTreeMap::new(), distinct: HashSet::new(), impl_checks: 0 };

    // big payloads run on worker threads while the small cases are generated
    let sizes: Vec<usize> = vec![L - 2, L - 1, L, L + 1, L + 2];
    let mut tasks: Vec<(String, usize, u64, bool)> = vec![];
    for kind in ["random", "random-nonzero", "zeros", "all-ff", "pattern", "zero-heavy", "sparse-zero-runs"] {
        for &n in &sizes { tasks.push((kind.to_string(), n, seed, true)); }
    }
    for n in (L - 36)..=(L - 30) { tasks.push(("random-nonzero".into(), n, seed, false)); } // where the encoder starts to fail
    for n in [L / 2 - 2, L / 2 - 1, L / 2, L / 2 + 1, 600 * 1024, L - 1000, L - 100] { tasks.push(("random".into(), n, seed, false)); tasks.push(("sparse-zero-runs".into(), n, seed, false)); }
    if thorough {
        for s in 1..=6u64 { for &n in &sizes { tasks.push(("sparse-zero-runs".into(), n, seed + s, true)); tasks.push(("random".into(), n, seed + s, true)); } }
        for _ in 0..40 { let n = rng.range(1, L as u64 + 4096) as usize; let k = *rng.pick(&["random", "zero-heavy", "sparse-zero-runs", "pattern", "random-nonzero"]); tasks.push((k.to_string(), n, rng.next(), true)); }
    }
    let n_big = tasks.len();
    let big_results: Vec<BigResult> = std::thread::scope(|sc| {
        let workers = 12usize;
        let chunks: Vec<Vec<(String, usize, u64, bool)>> = (0..workers).map(|w| tasks.iter().enumerate().filter(|(i, _)| i % workers == w).map(|(_, t)| t.clone()).collect()).collect();
        let mut hs = vec![];
        for ch in chunks {
            hs.push(sc.spawn(move || ch.iter().map(|(k, n, s, h)| big_check(k, *n, *s, *h)).collect::<Vec<_>>()));
        }
        let hb = sc.spawn(bombs);

        // ---- small cases (this thread) ----
        for (gen, x) in small_payloads(&mut rng.fork(), thorough) {
            let mut r = rng.fork();
            cx.payload(&x, &gen, &mut r);
        }
        for (gen, s) in malformed_strings(&mut rng.fork(), thorough) {
            cx.count(&format!("string.{}", gen));
            cx.b64_dec(s.as_bytes());
            let o = cx.decode_case(&s, &gen);
            if !s.contains('=') && rng.chance(1, 8) { let mut r = rng.fork(); cx.padding_check(&s, &o, &mut r, &gen); }
        }
        for l in nada_streams() {
            cx.nada_dec(&l);
            cx.nada_dec_lim(&l, (l.len() % 5) + 1);
            let mut d = vec![1u8];
            d.extend_from_slice(&l);
            let _ = cx.decode_case(&BASE64_STANDARD_NO_PAD.encode(&d), "nada-stream");
        }
        for s in ["", "0x", "0X12", "0x1", "1", "12", "0x12", "0x0g", "ABCDEF", "abcdef", "0xABcdEF", "x12", "00x12", "0x 12", "0x12 ", "0x0x12", "0x\u{e9}", "deadbeef", "0xdeadbeef", "0xDEADBEEF", "0xdeadbee", "g0", "0G", "0x00", "0xff", "0xFF"] {
            cx.hex_dec(s);
        }
        for _ in 0..(if thorough { 600 } else { 150 }) {
            let n = rng.range(0, 12) as usize;
            let mut s: String = if rng.chance(3, 4) { "0x".into() } else { String::new() };
            for _ in 0..n { s.push(*rng.pick(b"0123456789abcdefABCDEF0123456789abcdefgGxX -") as char); }
            cx.hex_dec(&s);
        }
        // select_bytes: every shape of the two optional fields
        let sample_b64 = ["AN6tvu//", "", "=", "AQ", "Ag", "Aw", "AN6tvu//==", "!!"];
        let sample_hex = ["0xdeadbeefff", "0x", "zz", ""];
        for r in [None, Some(None), Some(Some(0usize)), Some(Some(1)), Some(Some(2)), Some(Some(3))] {
            for b in [None, Some(None), Some(Some(0usize)), Some(Some(1)), Some(Some(2)), Some(Some(3)), Some(Some(4)), Some(Some(5)), Some(Some(6)), Some(Some(7))] {
                let raw = r.map(|o| o.map(|i| sample_hex[i].to_string()));
                let b64 = b.map(|o| o.map(|i| sample_b64[i].to_string()));
                let o = sel(&raw, &b64);
                if o.is_err() { cx.fail("F7 panic: decode_bytes_from_inscription_data panics (the part before the first '=' is empty)", json!({"select_bytes": {"raw": raw, "b64": b64}})); }
                if raw.is_some() == b64.is_some() && !matches!(o, Ok(Err(_))) { cx.fail("select_bytes: both-or-neither is not an error", json!({"raw": raw, "b64": b64})); }
                cx.select_case(raw, b64);
            }
        }
        let mut res: Vec<BigResult> = vec![];
        for h in hs { res.extend(h.join().expect("big worker")); }
        res.push(hb.join().expect("bombs"));
        res
    });

    let (efail, engine_report) = engine_twins();
    for (w, c) in efail { cx.fail(&w, c); }
    let mut big_notes: Vec<Value> = vec![];
    let mut big_checks = 0u64;
    for r in big_results {
        big_checks += r.checks;
        for (w, c) in r.failures { cx.fail(&w, c); }
        big_notes.extend(r.notes);
    }

    let imports = "From Brc.Model Require Import Base Base64 Nada Payload Tie15.\nFrom BrcGen Require Import Consts.";
    let shards = ((cx.terms.len() + 599) / 600).max(16);
    let files = cf::write_shards(out, "c15_cases", imports, "case15", "bad15 CALLDATA_LIMIT", &cx.terms, shards)?;
    std::fs::write(out.join("c15_cases.jsonl"), &cx.jsonl)?;
    let failures: Vec<Value> = cx.failures.iter().map(|(w, (n, c))| json!({"what": w, "case": c, "occurrences": n})).collect();
    let samples: Vec<Value> = cx.jsonl.lines().filter(|l| l.contains("\"kind\":\"decode\"") || l.contains("\"kind\":\"encode\"")).step_by(997).take(4).map(|l| serde_json::from_str(l).unwrap()).collect();
    let meta = json!({
        "files": files,
        "evaluations": cx.terms.len(),
        "distinct_nontrivial": cx.distinct.len(),
        "rule": "small payloads (empty, every single byte, zero runs around 255/510, ff runs, patterns, the nada alphabet, zero-heavy, random, up to ~500 bytes) are sent through base64/nada/hex/from_bytes/decode/select_bytes and, packed by hand, through every prefix byte; malformed strings: every 1-char ASCII string, every 2-char string over alphabet+6 (= every prefix byte with an empty body), truncations, illegal characters, '=' anywhere, non-canonical trailing bits, every nada stream over a 7-letter alphabet up to length 4. A case is non-trivial when its input is non-empty; distinct = distinct (kind, input). Big payloads (around CALLDATA_LIMIT, bombs) are checked on the implementation only.",
        "case_kinds": cx.counters,
        "impl_property_checks_small": cx.impl_checks,
        "impl_property_checks_big": big_checks,
        "big_payloads": n_big,
        "big_notes": big_notes,
        "engine_twins": engine_report,
        "harness_seconds": t_start.elapsed().as_secs_f64(),
        "samples": samples,
        "impl_failures": failures,
    });
    std::fs::write(out.join("c15_meta.json"), serde_json::to_string_pretty(&meta)?)?;
    Ok(())
}
