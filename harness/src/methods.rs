//! `hx reflect`, second file: coq/gen/Methods.v.
//!
//! Asks the real RPC module (the one `start_rpc_server` serves) for its registered method names and
//! measures, per method, whether invoking it with valid parameters mutates the store:
//! the store event recorder of `verif_hooks` is switched on around one in-process invocation on
//! an engine in the standard state (rpcx::standard_state_steps), and an observable state digest
//! (rpcx::digest_requests) is compared before / after.
//!
//!   mutates m    = a store mutation event was recorded, or the digest changed
//!   classified m = the harness has a parameter recipe for m, and the invocation returned a
//!                  JSON-RPC result -- or it was seen mutating (then it is classified as a
//!                  mutator whatever it answered; the unsound direction, "failed early, looks
//!                  read-only", is the one that is excluded).
//! A method without recipe, or whose only invocation failed without mutating, is *unclassified*.
use std::collections::BTreeMap;

use brc20_prog::verif_hooks as vh;
use jsonrpsee::Methods;
use serde_json::Value;

use crate::rpcx::{self, Class, Ctx};

pub struct Eng {
    pub methods: Methods,
    pub ctx: Ctx,
    _dir: tempfile::TempDir,
}

pub async fn call(methods: &Methods, m: &str, params: &Value) -> Result<(Class, Value), String> {
    let req = rpcx::request_json(Some(1), m, params).to_string();
    let (resp, _rx) = methods.raw_json_request(&req, 1).await.map_err(|e| format!("raw_json_request: {}", e))?;
    let v: Value = serde_json::from_str(resp.get()).map_err(|e| e.to_string())?;
    let (_, c) = rpcx::classify(&v).ok_or_else(|| format!("unclassifiable response {}", v))?;
    Ok((c, v))
}

pub fn fresh_uninitialised() -> Result<Eng, Box<dyn std::error::Error>> {
    let dir = tempfile::TempDir::new()?;
    let cfg = rpcx::config(dir.path().to_str().unwrap(), "127.0.0.1:0", None, "regtest", true);
    vh::set_config(cfg);
    let engine = vh::BRC20ProgEngine::new(vh::Brc20ProgDatabase::new(dir.path())?);
    let methods = vh::verif_rpc_methods(engine);
    let ctx = Ctx { chain_id: rpcx::chain_id_for("regtest"), signer: format!("{:#x}", rpcx::signed_tx(1, 0, None, vec![]).1), ..Default::default() };
    Ok(Eng { methods, ctx, _dir: dir })
}

/// Fill `ctx` from the standard state through read calls.
pub async fn learn_ctx(methods: &Methods, ctx: &mut Ctx) -> Result<(), String> {
    let (_, r) = call(methods, "brc20_getTxReceiptByInscriptionId", &serde_json::json!(["verif_deploy_i0"])).await?;
    let rec = r.get("result").cloned().unwrap_or(Value::Null);
    ctx.contract = rec.get("contractAddress").and_then(|x| x.as_str()).ok_or("no contractAddress in the deploy receipt")?.to_string();
    ctx.tx_hash = rec.get("transactionHash").and_then(|x| x.as_str()).ok_or("no transactionHash")?.to_string();
    ctx.block1_hash = rec.get("blockHash").and_then(|x| x.as_str()).ok_or("no blockHash")?.to_string();
    ctx.contract_insc = "verif_deploy_i0".to_string();
    let (_, h) = call(methods, "eth_blockNumber", &serde_json::json!([])).await?;
    ctx.height = u64::from_str_radix(h.get("result").and_then(|x| x.as_str()).unwrap_or("0x0").trim_start_matches("0x"), 16).map_err(|e| e.to_string())?;
    Ok(())
}

pub async fn fresh_standard() -> Result<Eng, Box<dyn std::error::Error>> {
    let mut e = fresh_uninitialised()?;
    for (m, p, must) in rpcx::standard_state_steps() {
        let (c, v) = call(&e.methods, m, &p).await?;
        if must && c != Class::Result { return Err(format!("standard state: {} answered {}", m, v).into()); }
    }
    learn_ctx(&e.methods, &mut e.ctx).await?;
    Ok(e)
}

pub async fn digest(methods: &Methods, ctx: &Ctx) -> String {
    let mut s = String::new();
    for (m, p) in rpcx::digest_requests(ctx) {
        match call(methods, m, &p).await {
            Ok((_, v)) => s.push_str(&canon(&v).to_string()),
            Err(e) => s.push_str(&e),
        }
        s.push('\n');
    }
    sha256::digest(s)
}

/// mineTimestamp is wall-clock; everything else is compared verbatim.
pub fn canon(v: &Value) -> Value {
    match v {
        Value::Object(o) => Value::Object(o.iter().filter(|(k, _)| k.as_str() != "mineTimestamp").map(|(k, x)| (k.clone(), canon(x))).collect()),
        Value::Array(a) => Value::Array(a.iter().map(canon).collect()),
        x => x.clone(),
    }
}

/// methods whose successful answer is JSON null (unit results, and the uncle stubs)
const NULL_RESULT_OK: &[&str] = &["brc20_mine", "brc20_finaliseBlock", "brc20_reorg", "brc20_commitToDatabase", "brc20_clearCaches", "brc20_initialise",
    "eth_getUncleByBlockNumberAndIndex", "eth_getUncleByBlockHashAndIndex"];

#[derive(Debug, Clone)]
pub struct Row {
    pub name: String,
    pub has_recipe: bool,
    pub ok: bool,
    pub answer: String,
    pub events: BTreeMap<&'static str, usize>,
    pub digest_changed: bool,
    pub handler_spans: Vec<String>,
}
impl Row {
    pub fn mutates(&self) -> bool { self.digest_changed || !self.events.is_empty() }
    pub fn classified(&self) -> bool { self.has_recipe && (self.ok || self.mutates()) }
}

pub async fn measure() -> Result<(Vec<Row>, Vec<String>), Box<dyn std::error::Error>> {
    rpcx::install_span_recorder();
    let probe = fresh_uninitialised()?;
    let mut names: Vec<String> = probe.methods.method_names().map(|s| s.to_string()).collect();
    names.sort();
    drop(probe);
    let mut rows = Vec::new();
    let mut eng: Option<Eng> = None;
    for name in &names {
        // brc20_initialise is measured where it acts: on an uninitialised database
        let e = if name == "brc20_initialise" { fresh_uninitialised()? } else {
            match eng.take() { Some(e) => e, None => fresh_standard().await? }
        };
        let recipe = rpcx::recipe(name, &e.ctx);
        let params = recipe.clone().unwrap_or(serde_json::json!([]));
        let before = digest(&e.methods, &e.ctx).await;
        rpcx::drain_spans();
        vh::drain();
        vh::set_recording(true);
        let r = call(&e.methods, name, &params).await;
        vh::set_recording(false);
        let evs = vh::drain();
        let spans = rpcx::drain_spans();
        let after = digest(&e.methods, &e.ctx).await;
        let mut events: BTreeMap<&'static str, usize> = BTreeMap::new();
        for ev in evs.iter().filter(|e| rpcx::is_mutation(e)) { *events.entry(rpcx::ev_kind(ev)).or_insert(0) += 1; }
        let (ok, answer) = match &r {
            Ok((Class::Result, v)) => {
                if std::env::var("VERIF_DEBUG").is_ok() { let t = v.to_string(); eprintln!("{} {} -> {}", name, params, &t[..t.len().min(300)]); }
                // a lookup that found nothing did not exercise the method: not a successful invocation
                if v.get("result").map(|r| r.is_null()).unwrap_or(true) && !NULL_RESULT_OK.contains(&name.as_str()) { (false, "null result".to_string()) } else { (true, "result".to_string()) }
            }
            Ok((_, v)) => (false, format!("error {}", v.get("error").map(|e| e.to_string()).unwrap_or_default())),
            Err(e) => (false, format!("harness error {}", e)),
        };
        let row = Row { name: name.clone(), has_recipe: recipe.is_some(), ok, answer, events, digest_changed: before != after, handler_spans: spans };
        // a mutating invocation leaves the standard state: rebuild it for the next method
        if !row.mutates() && name != "brc20_initialise" { eng = Some(e); }
        rows.push(row);
    }
    Ok((rows, trait_method_names()))
}

/// The `#[method(name = "...")]` attributes of the #[rpc] trait, read from the source
/// (cross-check of the registered table against the trait).
pub fn trait_method_names() -> Vec<String> {
    let repo = std::env::var("VERIF_REPO").unwrap_or_else(|_| "/repo".to_string());
    let src = std::fs::read_to_string(format!("{}/src/api/api.rs", repo)).unwrap_or_default();
    let mut v = Vec::new();
    let mut rest = src.as_str();
    while let Some(p) = rest.find("#[method(name = \"") {
        rest = &rest[p + "#[method(name = \"".len()..];
        if let Some(q) = rest.find('"') { v.push(rest[..q].to_string()); rest = &rest[q..]; }
    }
    v
}

pub fn generate() -> Result<String, Box<dyn std::error::Error>> {
    let rt = tokio::runtime::Builder::new_multi_thread().worker_threads(2).enable_all().build()?;
    let (rows, trait_names) = rt.block_on(measure())?;
    let mut s = String::new();
    s.push_str("(* GENERATED by `hx reflect` from the compiled crate; do not edit.\n");
    s.push_str("   method_table: the methods registered in the RPC module the server serves, each with\n");
    s.push_str("   (mutates, classified) measured by one in-process invocation with valid parameters while the\n");
    s.push_str("   store event recorder was on and a state digest was compared (harness/src/methods.rs). *)\n");
    s.push_str("From Coq Require Import List String.\nImport ListNotations.\n\n");
    s.push_str("Definition method_table : list (string * (bool * bool)) := [\n");
    for (i, r) in rows.iter().enumerate() {
        let ev: Vec<String> = r.events.iter().map(|(k, n)| format!("{}:{}", k, n)).collect();
        s.push_str(&format!(
            "  ({}, ({}, {})){} (* recipe={} answer={} events=[{}] digest_changed={} *)\n",
            rpcx::coq_str(&r.name), r.mutates(), r.classified(), if i + 1 < rows.len() { ";" } else { "" },
            r.has_recipe, sanitize(&r.answer), ev.join(" "), r.digest_changed
        ));
    }
    s.push_str("].\n\n");
    s.push_str("(* `#[method(name = ...)]` attributes found in src/api/api.rs *)\n");
    s.push_str(&format!("Definition trait_methods : list string := [{}].\n", trait_names.iter().map(|m| rpcx::coq_str(m)).collect::<Vec<_>>().join("; ")));
    Ok(s)
}

fn sanitize(s: &str) -> String {
    let t: String = s.chars().map(|c| if c.is_ascii_graphic() || c == ' ' { c } else { '?' }).collect();
    let t = t.replace("(*", "( *").replace("*)", "* )").replace('"', "'");
    if t.len() > 90 { format!("{}...", &t[..90]) } else { t }
}
