//! Printing of Gallina terms (closed, in N_scope) for cases.v files.
pub fn n(x: u64) -> String { format!("{}", x) }
pub fn n128(x: u128) -> String { format!("{}", x) }
pub fn opt<T>(x: &Option<T>, f: impl Fn(&T) -> String) -> String {
    match x { Some(v) => format!("(Some {})", f(v)), None => "None".to_string() }
}
pub fn list<T>(xs: &[T], f: impl Fn(&T) -> String) -> String {
    let mut s = String::from("[");
    for (i, x) in xs.iter().enumerate() {
        if i > 0 { s.push_str("; "); }
        s.push_str(&f(x));
    }
    s.push(']');
    s
}
pub fn pair(a: String, b: String) -> String { format!("({}, {})", a, b) }
pub fn bytes(xs: &[u8]) -> String { list(xs, |b| format!("{}", b)) }
pub fn boolean(b: bool) -> String { if b { "true".into() } else { "false".into() } }

/// Write `cases` into `shards` files `<dir>/<stem>_<i>.v`; each evaluates `eval_fn` on its share.
pub fn write_shards(
    dir: &std::path::Path, stem: &str, imports: &str, ty: &str, eval_fn: &str,
    cases: &[String], shards: usize,
) -> std::io::Result<Vec<String>> {
    let mut files = Vec::new();
    let shards = shards.max(1).min(cases.len().max(1));
    for s in 0..shards {
        let mut body = String::new();
        body.push_str(imports);
        body.push_str("\nOpen Scope N_scope.\n");
        body.push_str(&format!("Definition cases : list {} := [\n", ty));
        let mine: Vec<&String> = cases.iter().enumerate().filter(|(i, _)| i % shards == s).map(|(_, c)| c).collect();
        for (i, c) in mine.iter().enumerate() {
            if i > 0 { body.push_str(";\n"); }
            body.push_str(c);
        }
        body.push_str("\n].\n");
        body.push_str(&format!("Definition result := {} cases.\n", eval_fn));
        body.push_str("Eval vm_compute in result.\n");
        let name = format!("{}_{}.v", stem, s);
        std::fs::write(dir.join(&name), body)?;
        files.push(name);
    }
    Ok(files)
}
