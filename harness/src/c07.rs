//! C07 tie: the BRC20 bridge ledger.
//!
//! Drives the real engine (through `sim::Run`: the real JSON-RPC method table) with random
//! interleavings of brc20_deposit / brc20_withdraw and of user message calls on the
//! BRC20_Controller and on the token contracts it deployed (sent from pkscripts via
//! brc20_call, from signers via brc20_transact, from a user-deployed contract), across
//! reorgs, mined blocks, commits, clears and reopens.  Records every receipt status and,
//! after every block, brc20_balance / eth_call answers, and writes
//!   * `c07_l_<i>.v`: the histories for the Coq model (Model/Ledger.v via Model/Tie07.v),
//!   * `c07_meta.json` with `impl_failures`: what an independent HashMap ledger (fed with the
//!     implementation's own receipt statuses) found wrong on the implementation alone.
//! Calldata is ABI-encoded by hand here; the model gets the decoded call.
#![allow(dead_code)]
use std::collections::{BTreeMap, BTreeSet, HashMap};
use std::path::Path;

use alloy::primitives::{keccak256, Address, U256};
use serde_json::{json, Value};

use crate::coqfmt as cf;
use crate::rng::Rng;
use crate::sim::{self, cd, Enc, Hx, Idx, Op, Run, Tail, To};

// ------------------------------------------------------------------------------------------
// hand-written ABI encoding (independent of alloy's sol! used by the crate)
// ------------------------------------------------------------------------------------------

#[derive(Clone, Debug)]
pub enum Arg { B(Vec<u8>), A(Address), U(U256) }

pub fn selector(sig: &str) -> [u8; 4] { let h = keccak256(sig.as_bytes()); [h[0], h[1], h[2], h[3]] }

pub fn abi(sig: &str, args: &[Arg]) -> Vec<u8> {
    let mut out = selector(sig).to_vec();
    let head_len = 32 * args.len();
    let mut head: Vec<u8> = Vec::new();
    let mut tail: Vec<u8> = Vec::new();
    for a in args {
        match a {
            Arg::A(x) => { head.extend_from_slice(&[0u8; 12]); head.extend_from_slice(x.as_slice()); }
            Arg::U(x) => head.extend_from_slice(&x.to_be_bytes::<32>()),
            Arg::B(b) => {
                head.extend_from_slice(&U256::from(head_len + tail.len()).to_be_bytes::<32>());
                tail.extend_from_slice(&U256::from(b.len()).to_be_bytes::<32>());
                tail.extend_from_slice(b);
                let pad = (32 - b.len() % 32) % 32;
                tail.extend(std::iter::repeat(0u8).take(pad));
            }
        }
    }
    out.extend_from_slice(&head);
    out.extend_from_slice(&tail);
    out
}

// ------------------------------------------------------------------------------------------
// decoded calls (what the model sees)
// ------------------------------------------------------------------------------------------

#[derive(Clone, Debug)]
pub enum CFn {
    Transfer { t: Vec<u8>, to: Address, v: U256 },
    Approve { t: Vec<u8>, sp: Address, v: U256 },
    TransferFrom { t: Vec<u8>, from: Address, to: Address, v: U256 },
    Mint { t: Vec<u8>, to: Address, v: U256 },
    Burn { t: Vec<u8>, from: Address, v: U256 },
    Renounce,
    TransferOwnership { a: Address },
    Unknown { data: Vec<u8> },
}

#[derive(Clone, Debug)]
pub enum TFn {
    Transfer { to: Address, v: U256 },
    Approve { sp: Address, v: U256 },
    TransferFrom { from: Address, to: Address, v: U256 },
    ApproveO { o: Address, sp: Address, v: U256 },
    TransferFromO { sp: Address, from: Address, to: Address, v: U256 },
    Mint { a: Address, v: U256 },
    Burn { a: Address, v: U256 },
    Renounce,
    TransferOwnership { a: Address },
    Unknown { data: Vec<u8> },
}

#[derive(Clone, Debug)]
pub enum Target { Ctl(CFn), Tok { key: Vec<u8>, at: Address, f: TFn } }

impl CFn {
    fn calldata(&self) -> Vec<u8> {
        use Arg::*;
        match self {
            CFn::Transfer { t, to, v } => abi("transfer(bytes,address,uint256)", &[B(t.clone()), A(*to), U(*v)]),
            CFn::Approve { t, sp, v } => abi("approve(bytes,address,uint256)", &[B(t.clone()), A(*sp), U(*v)]),
            CFn::TransferFrom { t, from, to, v } => abi("transferFrom(bytes,address,address,uint256)", &[B(t.clone()), A(*from), A(*to), U(*v)]),
            CFn::Mint { t, to, v } => abi("mint(bytes,address,uint256)", &[B(t.clone()), A(*to), U(*v)]),
            CFn::Burn { t, from, v } => abi("burn(bytes,address,uint256)", &[B(t.clone()), A(*from), U(*v)]),
            CFn::Renounce => abi("renounceOwnership()", &[]),
            CFn::TransferOwnership { a } => abi("transferOwnership(address)", &[A(*a)]),
            CFn::Unknown { data } => data.clone(),
        }
    }
    fn coq(&self) -> String {
        match self {
            CFn::Transfer { t, to, v } => format!("CTransfer {} {} {}", cf::bytes(t), cn(*to), cu(*v)),
            CFn::Approve { t, sp, v } => format!("CApprove {} {} {}", cf::bytes(t), cn(*sp), cu(*v)),
            CFn::TransferFrom { t, from, to, v } => format!("CTransferFrom {} {} {} {}", cf::bytes(t), cn(*from), cn(*to), cu(*v)),
            CFn::Mint { t, to, v } => format!("CMint {} {} {}", cf::bytes(t), cn(*to), cu(*v)),
            CFn::Burn { t, from, v } => format!("CBurn {} {} {}", cf::bytes(t), cn(*from), cu(*v)),
            CFn::Renounce => "CRenounce".into(),
            CFn::TransferOwnership { a } => format!("CTransferOwnership {}", cn(*a)),
            CFn::Unknown { .. } => "CUnknown".into(),
        }
    }
    fn kind(&self) -> &'static str {
        match self { CFn::Transfer { .. } => "ctl.transfer", CFn::Approve { .. } => "ctl.approve", CFn::TransferFrom { .. } => "ctl.transferFrom",
            CFn::Mint { .. } => "ctl.mint", CFn::Burn { .. } => "ctl.burn", CFn::Renounce => "ctl.renounceOwnership",
            CFn::TransferOwnership { .. } => "ctl.transferOwnership", CFn::Unknown { .. } => "ctl.unknown" }
    }
    /// functions guarded by onlyOwner
    fn only_owner(&self) -> bool { matches!(self, CFn::Mint { .. } | CFn::Burn { .. } | CFn::Renounce | CFn::TransferOwnership { .. }) }
}

impl TFn {
    fn calldata(&self) -> Vec<u8> {
        use Arg::*;
        match self {
            TFn::Transfer { to, v } => abi("transfer(address,uint256)", &[A(*to), U(*v)]),
            TFn::Approve { sp, v } => abi("approve(address,uint256)", &[A(*sp), U(*v)]),
            TFn::TransferFrom { from, to, v } => abi("transferFrom(address,address,uint256)", &[A(*from), A(*to), U(*v)]),
            TFn::ApproveO { o, sp, v } => abi("approve(address,address,uint256)", &[A(*o), A(*sp), U(*v)]),
            TFn::TransferFromO { sp, from, to, v } => abi("transferFrom(address,address,address,uint256)", &[A(*sp), A(*from), A(*to), U(*v)]),
            TFn::Mint { a, v } => abi("mint(address,uint256)", &[A(*a), U(*v)]),
            TFn::Burn { a, v } => abi("burn(address,uint256)", &[A(*a), U(*v)]),
            TFn::Renounce => abi("renounceOwnership()", &[]),
            TFn::TransferOwnership { a } => abi("transferOwnership(address)", &[A(*a)]),
            TFn::Unknown { data } => data.clone(),
        }
    }
    fn coq(&self) -> String {
        match self {
            TFn::Transfer { to, v } => format!("TTransfer {} {}", cn(*to), cu(*v)),
            TFn::Approve { sp, v } => format!("TApprove {} {}", cn(*sp), cu(*v)),
            TFn::TransferFrom { from, to, v } => format!("TTransferFrom {} {} {}", cn(*from), cn(*to), cu(*v)),
            TFn::ApproveO { o, sp, v } => format!("TApproveO {} {} {}", cn(*o), cn(*sp), cu(*v)),
            TFn::TransferFromO { sp, from, to, v } => format!("TTransferFromO {} {} {} {}", cn(*sp), cn(*from), cn(*to), cu(*v)),
            TFn::Mint { a, v } => format!("TMint {} {}", cn(*a), cu(*v)),
            TFn::Burn { a, v } => format!("TBurn {} {}", cn(*a), cu(*v)),
            TFn::Renounce => "TRenounce".into(),
            TFn::TransferOwnership { a } => format!("TTransferOwnership {}", cn(*a)),
            TFn::Unknown { .. } => "TUnknown".into(),
        }
    }
    fn kind(&self) -> &'static str {
        match self { TFn::Transfer { .. } => "tok.transfer", TFn::Approve { .. } => "tok.approve", TFn::TransferFrom { .. } => "tok.transferFrom",
            TFn::ApproveO { .. } => "tok.approve3", TFn::TransferFromO { .. } => "tok.transferFrom4", TFn::Mint { .. } => "tok.mint",
            TFn::Burn { .. } => "tok.burn", TFn::Renounce => "tok.renounceOwnership", TFn::TransferOwnership { .. } => "tok.transferOwnership",
            TFn::Unknown { .. } => "tok.unknown" }
    }
    fn only_owner(&self) -> bool { !matches!(self, TFn::Transfer { .. } | TFn::Approve { .. } | TFn::TransferFrom { .. } | TFn::Unknown { .. }) }
}

/// (ticker key, from, to, value) a call moves if it succeeds; from = 0: mint, to = 0: burn
type Move = (Vec<u8>, Address, Address, U256);

impl Target {
    fn address(&self, ctl: Address) -> Address { match self { Target::Ctl(_) => ctl, Target::Tok { at, .. } => *at } }
    fn calldata(&self) -> Vec<u8> { match self { Target::Ctl(f) => f.calldata(), Target::Tok { f, .. } => f.calldata() } }
    fn kind(&self) -> &'static str { match self { Target::Ctl(f) => f.kind(), Target::Tok { f, .. } => f.kind() } }
    fn only_owner(&self) -> bool { match self { Target::Ctl(f) => f.only_owner(), Target::Tok { f, .. } => f.only_owner() } }
    fn coq(&self, sender: Address) -> String {
        match self {
            Target::Ctl(f) => format!("CallCtl {} ({})", cn(sender), f.coq()),
            Target::Tok { key, f, .. } => format!("CallTok {} {} ({})", cn(sender), cf::bytes(key), f.coq()),
        }
    }
    fn mv(&self, sender: Address) -> Option<Move> {
        let z = Address::ZERO;
        match self {
            Target::Ctl(CFn::Transfer { t, to, v }) => Some((t.clone(), sender, *to, *v)),
            Target::Ctl(CFn::TransferFrom { t, from, to, v }) => Some((t.clone(), *from, *to, *v)),
            Target::Ctl(CFn::Mint { t, to, v }) => Some((t.clone(), z, *to, *v)),
            Target::Ctl(CFn::Burn { t, from, v }) => Some((t.clone(), *from, z, *v)),
            Target::Tok { key, f: TFn::Transfer { to, v }, .. } => Some((key.clone(), sender, *to, *v)),
            Target::Tok { key, f: TFn::TransferFrom { from, to, v }, .. } => Some((key.clone(), *from, *to, *v)),
            Target::Tok { key, f: TFn::TransferFromO { from, to, v, .. }, .. } => Some((key.clone(), *from, *to, *v)),
            Target::Tok { key, f: TFn::Mint { a, v }, .. } => Some((key.clone(), z, *a, *v)),
            Target::Tok { key, f: TFn::Burn { a, v }, .. } => Some((key.clone(), *a, z, *v)),
            _ => None,
        }
    }
}

/// init code whose constructor calls `target` with `payload` and reverts if that call failed
/// (so the receipt status is the inner call's); the created contract has no code
fn ctor_calling(target: Address, payload: &[u8]) -> Vec<u8> {
    use sim::opc::*;
    let mut a = sim::Asm::new();
    let plen = (payload.len() as u16).to_be_bytes();
    a.push_exact(&plen).push_exact(&[0, 0]).op(PUSH0).op(CODECOPY);           // mem[0..plen] = payload (offset patched below)
    a.op(PUSH0).op(PUSH0).push_exact(&plen).op(PUSH0).op(PUSH0).push_exact(target.as_slice()).op(GAS).op(CALL);
    a.op(ISZERO).jumpi("fail").op(PUSH0).op(PUSH0).op(RETURN);
    a.label("fail").op(PUSH0).op(PUSH0).op(REVERT);
    let mut code = a.finish();
    let l = (code.len() as u16).to_be_bytes();
    code[4] = l[0]; code[5] = l[1];
    code.extend_from_slice(payload);
    code
}

fn cn(a: Address) -> String { U256::from_be_slice(a.as_slice()).to_string() }
fn cu(v: U256) -> String { v.to_string() }
fn opt_u(v: &Option<U256>) -> String { match v { Some(x) => format!("(Some {})", x), None => "None".into() } }

// ------------------------------------------------------------------------------------------
// tickers
// ------------------------------------------------------------------------------------------

/// spellings of the same ticker (all lower-case to the first's lower-casing)
const FAMILIES: &[&[&str]] = &[
    &["ordi", "ORDI", "Ordi", "oRdI"],
    &["sats", "SATS", "sAtS"],
    &["", ""],
    &["\u{c0}\u{c9}1", "\u{e0}\u{e9}1", "\u{c0}\u{e9}1"],          // Latin-1 capitals: 2-byte UTF-8
    &["a\u{0}b", "A\u{0}B", "a\u{0}B"],                              // a NUL inside
    &["\u{1f600}x", "\u{1f600}X"],                                   // 4-byte UTF-8, caseless
    &["\u{df}\u{4e2d}z", "\u{df}\u{4e2d}Z"],                         // sharp s (already lower), CJK
    &["doge ", "DOGE ", "Doge "],                                    // trailing space
    &["\"q'\\", "\"Q'\\"],                                           // quotes and a backslash
    &["a-very-long-ticker-of-forty-four-bytes-0123", "A-VERY-LONG-TICKER-OF-FORTY-FOUR-BYTES-0123"],
    &["\u{f7}\u{d7}\u{de}", "\u{f7}\u{d7}\u{fe}"],                   // division / multiplication signs (caseless), thorn
    &["pizza", "PiZzA", "PIZZA"],
];

/// the harness's own lower-casing (mirror of Model/Ledger.v `lower_bytes`): ASCII and Latin-1
pub fn lower_bytes(s: &[u8]) -> Vec<u8> {
    let mut out = Vec::with_capacity(s.len());
    let mut i = 0;
    while i < s.len() {
        let b = s[i];
        if b == 0xc3 && i + 1 < s.len() {
            let c = s[i + 1];
            out.push(b);
            out.push(if (0x80..=0x9e).contains(&c) && c != 0x97 { c + 0x20 } else { c });
            i += 2;
        } else {
            out.push(if b.is_ascii_uppercase() { b + 32 } else { b });
            i += 1;
        }
    }
    out
}

// ------------------------------------------------------------------------------------------
// the independent reference ledger
// ------------------------------------------------------------------------------------------

#[derive(Clone, Default)]
struct RefLedger {
    /// token contracts by ticker key, as told by BRC20Created logs
    tokens: BTreeMap<Vec<u8>, Address>,
    bal: HashMap<(Vec<u8>, Address), U256>,
    supply: HashMap<Vec<u8>, U256>,
    /// allowances (owner, spender) the harness has seen touched, for observation only
    pairs: BTreeSet<(Vec<u8>, Address, Address)>,
    /// everyone who ever was a recipient, per ticker
    holders: BTreeMap<Vec<u8>, BTreeSet<Address>>,
}
impl RefLedger {
    fn bal(&self, t: &[u8], a: Address) -> U256 { self.bal.get(&(t.to_vec(), a)).copied().unwrap_or(U256::ZERO) }
    fn supply(&self, t: &[u8]) -> U256 { self.supply.get(t).copied().unwrap_or(U256::ZERO) }
    /// a successful movement; returns a complaint if it cannot have happened on a conserved ledger
    fn apply(&mut self, m: &Move) -> Option<String> {
        let (t, from, to, v) = m;
        let z = Address::ZERO;
        let mut bad = None;
        if *from != z {
            let b = self.bal(t, *from);
            match b.checked_sub(*v) {
                Some(n) => { self.bal.insert((t.clone(), *from), n); }
                None => { bad = Some(format!("moved {} out of a balance of {}", v, b)); self.bal.insert((t.clone(), *from), U256::ZERO); }
            }
        } else {
            let s = self.supply(t);
            match s.checked_add(*v) {
                Some(n) => { self.supply.insert(t.clone(), n); }
                None => { bad = Some(format!("minted {} on top of a supply of {} (exceeds 2^256)", v, s)); }
            }
        }
        if *to != z {
            let b = self.bal(t, *to);
            match b.checked_add(*v) {
                Some(n) => { self.bal.insert((t.clone(), *to), n); }
                None => { bad = Some(format!("credited {} to a balance of {} (exceeds 2^256)", v, b)); }
            }
            self.holders.entry(t.clone()).or_default().insert(*to);
        } else {
            let s = self.supply(t);
            self.supply.insert(t.clone(), s.saturating_sub(*v));
        }
        bad
    }
}

// ------------------------------------------------------------------------------------------
// one history
// ------------------------------------------------------------------------------------------

#[derive(Clone, Copy, Debug)]
enum Via { Pk(usize), Signer(usize), Tool { tool: usize, pk: usize },
    /// a contract creation signed by signer i whose constructor makes the call (msg.sender = the address being created)
    Ctor(usize) }

const PKS: [&str; 6] = [
    "76a914f1b8e7e4f3f1f2f1e1f1f1f1f1f1f1f1f1f1f1f188ac",
    "0014aabbccddeeff00112233445566778899aabbccdd",
    "5120bf1ae4b4e5f7c0d3a9b8e1f20c4d5e6f708192a3b4c5d6e7f8091a2b3c4d5e6f",
    "7465737420706b736372697074",
    "",
    "00",
];

#[derive(Clone)]
struct Snap { rf: RefLedger, nonces: [u64; sim::SIGNERS] }

pub struct Hist {
    pub id: u64,
    pub items: Vec<String>,
    pub log: Vec<String>,
    pub failures: Vec<Value>,
    pub counters: BTreeMap<String, u64>,
    pub txs: u64,
    pub reads: u64,
    pub aborted: Option<String>,
}

struct Ctx<'a> {
    rng: &'a mut Rng,
    run: Run,
    ctl: Address,
    indexer: Address,
    pk_addr: Vec<Address>,
    tools: Vec<Address>,
    fams: Vec<usize>,
    rf: RefLedger,
    nonces: [u64; sim::SIGNERS],
    snaps: Vec<Snap>,
    base_h: u64,
    max_ever: u64,
    uid: u64,
    h: Hist,
    /// (ticker key, address) touched in the block being built
    touched: BTreeSet<(Vec<u8>, Address)>,
    block_ts: u64,
    stray: Address,
}

fn receipt_status(v: &Value) -> Option<bool> {
    let r = match v { Value::Array(a) if a.len() == 1 => &a[0], Value::Object(_) => v, _ => return None };
    match r.get("status").and_then(|s| s.as_str()) { Some("0x1") => Some(true), Some("0x0") => Some(false), _ => None }
}

fn created_token(v: &Value, ctl: Address) -> Option<Address> {
    let topic0 = format!("0x{}", hex::encode(keccak256(b"BRC20Created(bytes,address)")));
    let r = match v { Value::Array(a) if a.len() == 1 => &a[0], _ => v };
    for l in r.get("logs")?.as_array()? {
        let addr = Hx::from_hex(l.get("address")?.as_str()?).to_address();
        let ts = l.get("topics")?.as_array()?;
        if addr == ctl && ts.len() == 3 && ts[0].as_str()? == topic0 {
            let t2 = Hx::from_hex(ts[2].as_str()?);
            return Some(Address::from_slice(&t2.0[12..32]));
        }
    }
    None
}

fn parse_word(v: &Value) -> Option<U256> {
    let s = v.as_str()?;
    let b = hex::decode(s.trim_start_matches("0x")).ok()?;
    if b.len() != 32 { return None; }
    Some(U256::from_be_slice(&b))
}

impl<'a> Ctx<'a> {
    fn count(&mut self, k: &str) { *self.h.counters.entry(k.to_string()).or_default() += 1; }
    fn fail(&mut self, what: String, detail: Value) {
        if self.h.failures.len() < 20 {
            let tail: Vec<String> = self.h.log.iter().rev().take(60).rev().cloned().collect();
            self.h.failures.push(json!({"what": what, "case": {"id": self.h.id, "detail": detail, "history_tail": tail}}));
        }
    }
    fn fresh(&mut self, p: &str) -> String { self.uid += 1; format!("{}{}x{}i0", p, self.h.id, self.uid) }
    fn height(&self) -> u64 { self.run.tracker.height().unwrap_or(0) }

    fn people(&self) -> Vec<Address> {
        let mut v = self.pk_addr.clone();
        for i in 0..sim::SIGNERS { v.push(sim::signer_address(i)); }
        v.extend(self.tools.iter().copied());
        v
    }
    fn everyone(&self) -> Vec<Address> {
        let mut v = self.people();
        v.push(self.ctl); v.push(self.indexer); v.push(Address::ZERO); v.push(self.stray);
        v.extend(self.rf.tokens.values().copied());
        v
    }
    fn via_addr(&self, v: Via) -> Address {
        match v { Via::Pk(i) => self.pk_addr[i], Via::Signer(i) => sim::signer_address(i), Via::Tool { tool, .. } => self.tools[tool],
            Via::Ctor(i) => sim::signer_address(i).create(self.nonces[i]) }
    }
    fn raw_tickers(&self) -> Vec<&'static str> { self.fams.iter().flat_map(|f| FAMILIES[*f].iter().copied()).collect() }
    fn keys(&self) -> Vec<Vec<u8>> { self.fams.iter().map(|f| lower_bytes(FAMILIES[*f][0].as_bytes())).collect() }

    // ---- sending ------------------------------------------------------------------------

    fn tail(&mut self, insc: String) -> Tail {
        Tail { ts: self.block_ts, hash: Hx::zero32(), tx_idx: Idx::Auto, insc_id: insc, byte_len: 4000, op_return_tx_id: Hx::zero32() }
    }

    /// sends one transaction-carrying op; returns the receipt status (None: no single receipt)
    fn send(&mut self, op: Op, what: &str) -> Option<(bool, Value)> {
        let out = self.run.step(&op).clone();
        self.h.txs += 1;
        if !out.status.is_ok() {
            self.h.log.push(format!("{} -> {}", what, out.status.class()));
            self.h.aborted = Some(format!("{} answered {:?}", what, out.status));
            return None;
        }
        match receipt_status(&out.result) {
            Some(s) => { self.h.log.push(format!("{} -> status {}", what, s as u8)); Some((s, out.result)) }
            None => {
                self.h.log.push(format!("{} -> no receipt: {}", what, out.result));
                for i in 0..sim::SIGNERS {
                    let r = self.run.inst.rpc("eth_getTransactionCount", json!([format!("{:?}", sim::signer_address(i)), "latest"]));
                    let p = self.run.inst.rpc("txpool_contentFrom", json!([format!("{:?}", sim::signer_address(i))]));
                    self.h.log.push(format!("   signer {}: engine nonce {:?}, harness nonce {}, pool {:?}", i, r, self.nonces[i], p.map(|v| v.to_string())));
                }
                self.h.aborted = Some(format!("{} returned no single receipt: {}", what, out.result));
                None
            }
        }
    }

    fn user_call(&mut self, via: Via, target: Target) {
        let sender = self.via_addr(via);
        let to = target.address(self.ctl);
        let data = target.calldata();
        let insc = self.fresh("u");
        let tail = self.tail(insc);
        let enc = if self.rng.chance(1, 4) { Enc::Base64 } else { Enc::Hex };
        let op = match via {
            Via::Pk(i) => Op::Call { from_pkscript: PKS[i].to_string(), to: To::ByAddress(Hx::addr(to)), data: Hx(data), enc, tail },
            Via::Signer(i) => Op::Transact { raw_tx: Hx(sim::sign_legacy(i, self.nonces[i], Some(to), data, sim::CHAIN_ID)), enc, tail },
            Via::Tool { tool, pk } => Op::Call { from_pkscript: PKS[pk].to_string(), to: To::ByAddress(Hx::addr(self.tools[tool])), data: Hx(cd::call(to, &data)), enc, tail },
            Via::Ctor(i) => Op::Transact { raw_tx: Hx(sim::sign_legacy(i, self.nonces[i], None, ctor_calling(to, &data), sim::CHAIN_ID)), enc, tail },
        };
        let what = format!("{:?} {}", via, target.coq(sender));
        let Some((ok, _)) = self.send(op, &what) else { return };
        if let Via::Signer(i) | Via::Ctor(i) = via { self.nonces[i] += 1; }
        self.h.items.push(format!("ICall ({}) {}", target.coq(sender), cf::boolean(ok)));
        let kind = target.kind();
        self.count(&format!("{}:{}", kind, if ok { "ok" } else { "revert" }));
        if ok { if let Some(m) = target.mv(sender) { if !m.3.is_zero() { self.count(&format!("{}:ok_moving_tokens", kind)); } } }
        // ---- the property, on the implementation alone ----
        if ok && target.only_owner() {
            self.fail(format!("a user's call of the onlyOwner function {} succeeded", kind), json!({"call": what}));
        }
        if let Target::Ctl(CFn::Approve { t, sp, .. }) = &target { if ok { self.rf.pairs.insert((t.clone(), sender, *sp)); } }
        if let Target::Tok { key, f: TFn::Approve { sp, .. }, .. } = &target { if ok { self.rf.pairs.insert((key.clone(), sender, *sp)); } }
        if let Some(m) = target.mv(sender) {
            self.touched.insert((m.0.clone(), m.1)); self.touched.insert((m.0.clone(), m.2));
            if ok {
                if m.1 == Address::ZERO || m.2 == Address::ZERO {
                    self.fail(format!("a user's {} from/to the zero address succeeded (mint or burn)", kind), json!({"call": what}));
                }
                if m.1 != Address::ZERO && m.3 > self.rf.bal(&m.0, m.1) {
                    self.fail(format!("{} of more than the balance succeeded", kind), json!({"call": what, "balance": self.rf.bal(&m.0, m.1).to_string()}));
                }
                if !self.rf.tokens.contains_key(&m.0) {
                    self.fail(format!("{} on a ticker without token succeeded", kind), json!({"call": what}));
                }
                if let Some(c) = self.rf.apply(&m) { self.fail(format!("{}: {}", kind, c), json!({"call": what})); }
            }
        }
    }

    fn amount_string(&mut self, v: U256) -> String { if self.rng.chance(1, 3) { v.to_string() } else { format!("0x{:x}", v) } }

    fn deposit(&mut self, pk: usize, raw: &str, v: U256) {
        let key = lower_bytes(raw.as_bytes());
        let a = self.pk_addr[pk];
        let op = Op::Deposit { to_pkscript: PKS[pk].into(), ticker: raw.into(), amount: self.amount_string(v), ts: self.block_ts, hash: Hx::zero32(), tx_idx: Idx::Auto, insc_id: self.fresh("d") };
        let what = format!("deposit pk{} {:?} {}", pk, raw, v);
        let Some((ok, receipt)) = self.send(op, &what) else { return };
        self.h.items.push(format!("IDeposit {} {} {} {}", cn(a), cf::bytes(raw.as_bytes()), cu(v), cf::boolean(ok)));
        self.count(if ok { "deposit:ok" } else { "deposit:revert" });
        self.touched.insert((key.clone(), a));
        if ok {
            let created = created_token(&receipt, self.ctl);
            match (self.rf.tokens.get(&key).copied(), created) {
                (None, Some(addr)) => { self.rf.tokens.insert(key.clone(), addr); self.count("token_created"); }
                (None, None) => self.fail("a successful first deposit of a ticker emitted no BRC20Created".into(), json!({"op": what})),
                (Some(_), Some(addr)) => self.fail("a deposit created a second token contract for a ticker".into(), json!({"op": what, "address": addr.to_string()})),
                (Some(_), None) => {}
            }
            if let Some(c) = self.rf.apply(&(key, Address::ZERO, a, v)) { self.fail(format!("deposit: {}", c), json!({"op": what})); }
        }
    }

    fn withdraw(&mut self, pk: usize, raw: &str, v: U256) {
        let key = lower_bytes(raw.as_bytes());
        let a = self.pk_addr[pk];
        let op = Op::Withdraw { from_pkscript: PKS[pk].into(), ticker: raw.into(), amount: self.amount_string(v), ts: self.block_ts, hash: Hx::zero32(), tx_idx: Idx::Auto, insc_id: self.fresh("w") };
        let what = format!("withdraw pk{} {:?} {}", pk, raw, v);
        let Some((ok, _)) = self.send(op, &what) else { return };
        self.h.items.push(format!("IWithdraw {} {} {} {}", cn(a), cf::bytes(raw.as_bytes()), cu(v), cf::boolean(ok)));
        self.count(if ok { "withdraw:ok" } else { "withdraw:revert" });
        self.touched.insert((key.clone(), a));
        if ok {
            if v > self.rf.bal(&key, a) {
                self.fail("a withdrawal of more than the balance succeeded".into(), json!({"op": what, "balance": self.rf.bal(&key, a).to_string()}));
            }
            if let Some(c) = self.rf.apply(&(key, a, Address::ZERO, v)) { self.fail(format!("withdraw: {}", c), json!({"op": what})); }
        }
    }

    // ---- reading ------------------------------------------------------------------------

    fn eth_call(&mut self, from: Option<Address>, to: Address, data: Vec<u8>) -> Option<Option<U256>> {
        let out = self.run.step(&Op::EthCall { from: from.map(Hx::addr), to: Some(Hx::addr(to)), data: Hx(data), block: None }).clone();
        self.h.reads += 1;
        match &out.status {
            sim::Status::Ok => Some(parse_word(&out.result)),
            sim::Status::Rejected(m) if m.starts_with("Execution reverted") => Some(None),
            s => { self.h.aborted = Some(format!("eth_call answered {:?}", s)); None }
        }
    }

    fn obs_balance(&mut self, pk: usize, raw: &str) {
        let out = self.run.step(&Op::Balance { pkscript: PKS[pk].into(), ticker: raw.into() }).clone();
        self.h.reads += 1;
        let ans = match (&out.status, out.result.as_str()) {
            (sim::Status::Ok, Some(s)) => U256::from_str_radix(s.trim_start_matches("0x"), 16).ok(),
            _ => None,
        };
        let Some(ans) = ans else { self.h.aborted = Some(format!("brc20_balance answered {:?} {}", out.status, out.result)); return };
        let a = self.pk_addr[pk];
        self.h.items.push(format!("IBalance {} {} {}", cn(a), cf::bytes(raw.as_bytes()), cu(ans)));
        let want = self.rf.bal(&lower_bytes(raw.as_bytes()), a);
        if ans != want {
            self.fail("brc20_balance differs from deposits - withdrawals + received - sent".into(),
                json!({"pkscript": PKS[pk], "ticker": raw, "answer": ans.to_string(), "ledger": want.to_string()}));
        }
    }

    /// eth_call of a view function; `q` is the model's query term, `want` what the reference ledger says (if it has an opinion)
    fn obs_query(&mut self, to: Address, data: Vec<u8>, q: String, want: Option<Option<U256>>, what: &str) -> Option<Option<U256>> {
        let from = if self.rng.chance(1, 3) { Some(self.indexer) } else { None };
        let ans = self.eth_call(from, to, data)?;
        self.h.items.push(format!("IQuery ({}) {}", q, opt_u(&ans)));
        if let Some(w) = want {
            if w != ans {
                self.fail(format!("{} differs from the reference ledger", what), json!({"query": q, "answer": format!("{:?}", ans), "ledger": format!("{:?}", w)}));
            }
        }
        Some(ans)
    }

    fn obs_tok_balance(&mut self, key: &[u8], a: Address) {
        let Some(at) = self.rf.tokens.get(key).copied() else { return };
        let want = Some(Some(self.rf.bal(key, a)));
        if self.rng.chance(1, 2) {
            self.obs_query(at, abi("balanceOf(address)", &[Arg::A(a)]), format!("QTokBalanceOf {} {}", cf::bytes(key), cn(a)), want, "token.balanceOf");
        } else {
            self.obs_query(self.ctl, abi("balanceOf(bytes,address)", &[Arg::B(key.to_vec()), Arg::A(a)]), format!("QCtlBalanceOf {} {}", cf::bytes(key), cn(a)), want, "controller.balanceOf");
        }
    }

    fn obs_supply(&mut self, key: &[u8]) {
        let Some(at) = self.rf.tokens.get(key).copied() else { return };
        let want = Some(Some(self.rf.supply(key)));
        self.obs_query(at, abi("totalSupply()", &[]), format!("QTokTotalSupply {}", cf::bytes(key)), want, "token.totalSupply");
    }

    fn obs_allowance(&mut self, key: &[u8], o: Address, s: Address) {
        let Some(at) = self.rf.tokens.get(key).copied() else { return };
        if self.rng.chance(1, 2) {
            self.obs_query(at, abi("allowance(address,address)", &[Arg::A(o), Arg::A(s)]), format!("QTokAllowance {} {} {}", cf::bytes(key), cn(o), cn(s)), None, "token.allowance");
        } else {
            self.obs_query(self.ctl, abi("allowance(bytes,address,address)", &[Arg::B(key.to_vec()), Arg::A(o), Arg::A(s)]), format!("QCtlAllowance {} {} {}", cf::bytes(key), cn(o), cn(s)), None, "controller.allowance");
        }
    }

    fn obs_ticker_addr(&mut self, key: &[u8]) {
        let Some(ans) = self.eth_call(None, self.ctl, abi("getTickerAddress(bytes)", &[Arg::B(key.to_vec())])) else { return };
        let Some(ans) = ans else { self.fail("getTickerAddress reverted".into(), json!({"ticker": hex::encode(key)})); return };
        self.h.items.push(format!("ITickerAddr {} {}", cf::bytes(key), cu(ans)));
        let want = self.rf.tokens.get(key).map(|a| U256::from_be_slice(a.as_slice())).unwrap_or(U256::ZERO);
        if ans != want {
            self.fail("getTickerAddress differs from the BRC20Created log of the first deposit".into(), json!({"ticker": hex::encode(key), "answer": ans.to_string(), "expected": want.to_string()}));
        }
    }

    /// reads after a block; `full`: everything the harness knows about
    fn observe(&mut self, full: bool) {
        if self.h.aborted.is_some() { return; }
        let keys = self.keys();
        let raws = self.raw_tickers();
        let everyone = self.everyone();
        let touched: Vec<(Vec<u8>, Address)> = std::mem::take(&mut self.touched).into_iter().collect();
        if full {
            for pk in 0..PKS.len() { for r in &raws { self.obs_balance(pk, r); } }
            for k in &keys {
                self.obs_ticker_addr(k);
                self.obs_supply(k);
                if !self.rf.tokens.contains_key(k) {
                    // a ticker without token: the controller's view reverts
                    let a = everyone[self.rng.below(everyone.len() as u64) as usize];
                    self.obs_query(self.ctl, abi("balanceOf(bytes,address)", &[Arg::B(k.clone()), Arg::A(a)]), format!("QCtlBalanceOf {} {}", cf::bytes(k), cn(a)), Some(None), "controller.balanceOf of a ticker without token");
                    continue;
                }
                // conservation on the implementation alone: the sum over everyone who could hold
                let mut sum = U256::ZERO;
                let mut overflow = false;
                let at = self.rf.tokens[k];
                let mut askees: BTreeSet<Address> = everyone.iter().copied().collect();
                if let Some(h) = self.rf.holders.get(k) { askees.extend(h.iter().copied()); }
                for a in askees {
                    let want = Some(Some(self.rf.bal(k, a)));
                    if let Some(Some(b)) = self.obs_query(at, abi("balanceOf(address)", &[Arg::A(a)]), format!("QTokBalanceOf {} {}", cf::bytes(k), cn(a)), want, "token.balanceOf") {
                        match sum.checked_add(b) { Some(s) => sum = s, None => overflow = true }
                    }
                }
                let ts = self.eth_call(None, at, abi("totalSupply()", &[])).flatten();
                if overflow || ts != Some(sum) {
                    self.fail("totalSupply differs from the sum of the holders' balances".into(), json!({"ticker": hex::encode(k), "totalSupply": format!("{:?}", ts), "sum": sum.to_string(), "sum_overflowed": overflow}));
                }
                let at_word = Some(Some(U256::from_be_slice(self.ctl.as_slice())));
                self.obs_query(at, abi("owner()", &[]), format!("QTokOwner {}", cf::bytes(k)), at_word, "token.owner");
                self.obs_query(at, abi("decimals()", &[]), format!("QTokDecimals {}", cf::bytes(k)), Some(Some(U256::from(18))), "token.decimals");
            }
            let pairs: Vec<_> = self.rf.pairs.iter().cloned().collect();
            for (k, o, s) in pairs { self.obs_allowance(&k, o, s); }
            let iw = Some(Some(U256::from_be_slice(self.indexer.as_slice())));
            self.obs_query(self.ctl, abi("owner()", &[]), "QCtlOwner".into(), iw, "controller.owner");
        } else {
            for (k, a) in &touched {
                if let Some(pk) = self.pk_addr.iter().position(|x| x == a) {
                    // ask under a random spelling of the family
                    if let Some(f) = self.fams.iter().find(|f| lower_bytes(FAMILIES[**f][0].as_bytes()) == *k) {
                        let fam = FAMILIES[*f];
                        let r = fam[self.rng.below(fam.len() as u64) as usize];
                        self.obs_balance(pk, r);
                    }
                }
                self.obs_tok_balance(k, *a);
            }
            for _ in 0..3 {
                let pk = self.rng.below(PKS.len() as u64) as usize;
                let r = raws[self.rng.below(raws.len() as u64) as usize];
                self.obs_balance(pk, r);
            }
            for k in &keys { self.obs_supply(k); }
            let k = keys[self.rng.below(keys.len() as u64) as usize].clone();
            let a = everyone[self.rng.below(everyone.len() as u64) as usize];
            self.obs_tok_balance(&k, a);
            if self.rng.chance(1, 3) { self.obs_ticker_addr(&k); }
            let pairs: Vec<_> = self.rf.pairs.iter().cloned().collect();
            if !pairs.is_empty() {
                let (k, o, s) = pairs[self.rng.below(pairs.len() as u64) as usize].clone();
                self.obs_allowance(&k, o, s);
            }
            if self.rng.chance(1, 4) {
                let o = everyone[self.rng.below(everyone.len() as u64) as usize];
                let s = if self.rng.chance(1, 3) { o } else { everyone[self.rng.below(everyone.len() as u64) as usize] };
                self.obs_allowance(&k, o, s);
            }
            if self.rng.chance(1, 3) {
                // a simulated mint from the indexer address must not persist (checked by what follows)
                let a = self.pk_addr[0];
                let mint = abi("mint(bytes,address,uint256)", &[Arg::B(k.clone()), Arg::A(a), Arg::U(U256::from(777))]);
                // ... through every simulation entry point: eth_call, eth_callMany, eth_estimateGas(Many)
                match self.rng.below(4) {
                    0 => { let _ = self.eth_call(Some(self.indexer), self.ctl, mint); }
                    1 => { let _ = self.run.step(&Op::EthCallMany { calls: vec![sim::CallSpec { from: Some(Hx::addr(self.indexer)), to: Some(Hx::addr(self.ctl)), data: Hx(mint.clone()) },
                                                                             sim::CallSpec { from: Some(Hx::addr(self.indexer)), to: Some(Hx::addr(self.ctl)), data: Hx(mint) }], block: None, op_return_tx_ids: None }); self.h.reads += 1; }
                    2 => { let _ = self.run.step(&Op::EstimateGas { from: Some(Hx::addr(self.indexer)), to: Some(Hx::addr(self.ctl)), data: Hx(mint), block: None }); self.h.reads += 1; }
                    _ => { let _ = self.run.step(&Op::EstimateGasMany { calls: vec![sim::CallSpec { from: Some(Hx::addr(self.indexer)), to: Some(Hx::addr(self.ctl)), data: Hx(mint) }], block: None }); self.h.reads += 1; }
                }
                self.obs_tok_balance(&k, a);
                self.obs_supply(&k);
            }
        }
    }

    // ---- generation ---------------------------------------------------------------------

    fn pick_addr(&mut self, sender: Address) -> Address {
        let people = self.people();
        match self.rng.below(100) {
            0..=69 => people[self.rng.below(people.len() as u64) as usize],
            70..=79 => sender,
            80..=84 => Address::ZERO,
            85..=88 => self.ctl,
            89..=91 => self.indexer,
            92..=95 => { let t: Vec<Address> = self.rf.tokens.values().copied().collect(); if t.is_empty() { self.stray } else { t[self.rng.below(t.len() as u64) as usize] } }
            _ => self.stray,
        }
    }

    fn pick_value(&mut self, bal: U256) -> U256 {
        let one = U256::from(1);
        match self.rng.below(100) {
            0..=7 => U256::ZERO,
            8..=13 => one,
            14..=27 => bal,
            28..=37 => bal.saturating_add(one),
            38..=45 => bal.saturating_sub(one),
            46..=57 => bal / U256::from(2),
            58..=63 => bal / U256::from(3),
            64..=67 => one << 255,
            68..=72 => U256::MAX,
            73..=75 => U256::MAX - one,
            _ => U256::from(self.rng.range(2, 1000)),
        }
    }

    fn pick_key(&mut self) -> Vec<u8> {
        let keys = self.keys();
        let existing: Vec<Vec<u8>> = keys.iter().filter(|k| self.rf.tokens.contains_key(*k)).cloned().collect();
        match self.rng.below(100) {
            0..=74 if !existing.is_empty() => existing[self.rng.below(existing.len() as u64) as usize].clone(),
            0..=84 => keys[self.rng.below(keys.len() as u64) as usize].clone(),
            85..=92 => { // a spelling that is not the lower-cased one: for the contract a different ticker
                let raws = self.raw_tickers();
                raws[self.rng.below(raws.len() as u64) as usize].as_bytes().to_vec()
            }
            93..=96 => { let n = self.rng.below(7) as usize; (0..n).map(|_| self.rng.below(256) as u8).collect() }
            _ => b"none".to_vec(),
        }
    }

    fn pick_via(&mut self) -> Via {
        match self.rng.below(100) {
            0..=49 => Via::Pk(self.rng.below(PKS.len() as u64) as usize),
            50..=73 => Via::Signer(self.rng.below(sim::SIGNERS as u64) as usize),
            74..=81 => Via::Ctor(self.rng.below(sim::SIGNERS as u64) as usize),
            _ => Via::Tool { tool: self.rng.below(self.tools.len() as u64) as usize, pk: self.rng.below(PKS.len() as u64) as usize },
        }
    }

    fn garbage_calldata(&mut self, on_ctl: bool) -> Vec<u8> {
        match self.rng.below(4) {
            0 => abi("steal(address)", &[Arg::A(self.stray)]),
            1 => { // truncated arguments.  (Dropping only the zero padding behind a `bytes` argument leaves valid
                   // calldata - the decoder checks offset + length against calldatasize, not the padding - so for the
                   // controller the cut starts inside the 4 ticker bytes: 28 bytes of padding + at least 1.)
                let mut d = if on_ctl { abi("transfer(bytes,address,uint256)", &[Arg::B(b"ordi".to_vec()), Arg::A(self.stray), Arg::U(U256::from(1))]) } else { abi("transfer(address,uint256)", &[Arg::A(self.stray), Arg::U(U256::from(1))]) };
                let n = d.len(); d.truncate(n - if on_ctl { 29 } else { 1 } - self.rng.below(40) as usize); d
            }
            2 => { // an address argument with dirty high bits
                let mut d = if on_ctl { abi("transferOwnership(address)", &[Arg::A(self.stray)]) } else { abi("approve(address,uint256)", &[Arg::A(self.stray), Arg::U(U256::from(1))]) };
                d[4] = 0xff; d
            }
            _ => vec![0xde, 0xad],
        }
    }

    fn via_of(&mut self, a: Address) -> Option<Via> {
        if let Some(i) = self.pk_addr.iter().position(|x| *x == a) { return Some(Via::Pk(i)); }
        for i in 0..sim::SIGNERS { if sim::signer_address(i) == a { return Some(Via::Signer(i)); } }
        if let Some(i) = self.tools.iter().position(|x| *x == a) { return Some(Via::Tool { tool: i, pk: self.rng.below(PKS.len() as u64) as usize }); }
        None
    }

    /// someone the harness can send as who holds something: (ticker key, how to send as them)
    fn holder_via(&mut self) -> Option<(Vec<u8>, Via)> {
        let mut hs: Vec<(Vec<u8>, Address)> = self.rf.bal.iter().filter(|(_, v)| !v.is_zero()).map(|((k, a), _)| (k.clone(), *a)).collect();
        hs.sort();
        let people = self.people();
        hs.retain(|(_, a)| people.contains(a));
        if hs.is_empty() { return None; }
        let (k, a) = hs[self.rng.below(hs.len() as u64) as usize].clone();
        self.via_of(a).map(|v| (k, v))
    }

    /// someone who approved `sender` for ticker `key` (so that a transferFrom can succeed)
    fn approver_of(&mut self, key: &[u8], sender: Address) -> Option<Address> {
        let v: Vec<Address> = self.rf.pairs.iter().filter(|(k, _, s)| k == key && *s == sender).map(|(_, o, _)| *o).collect();
        if v.is_empty() { None } else { Some(v[self.rng.below(v.len() as u64) as usize]) }
    }

    fn gen_user_call(&mut self) {
        let (via, pref_key) = match if self.rng.chance(11, 20) { self.holder_via() } else { None } {
            Some((k, v)) => (v, Some(k)),
            None => (self.pick_via(), None),
        };
        let sender = self.via_addr(via);
        let on_tok = !self.rf.tokens.is_empty() && self.rng.chance(45, 100);
        let people = self.people();
        // whose money: mostly someone who has some
        let target = if on_tok {
            let toks: Vec<(Vec<u8>, Address)> = self.rf.tokens.iter().map(|(k, a)| (k.clone(), *a)).collect();
            let (key, at) = match pref_key.as_ref().and_then(|k| self.rf.tokens.get(k).map(|a| (k.clone(), *a))) {
                Some(x) if self.rng.chance(9, 10) => x,
                _ => toks[self.rng.below(toks.len() as u64) as usize].clone(),
            };
            let from = match self.approver_of(&key, sender) {
                Some(o) if self.rng.chance(1, 2) => o,
                _ => if self.rng.chance(1, 2) { sender } else { people[self.rng.below(people.len() as u64) as usize] },
            };
            let f = match self.rng.below(100) {
                0..=24 => { let v = self.pick_value(self.rf.bal(&key, sender)); TFn::Transfer { to: self.pick_addr(sender), v } }
                25..=39 => { let v = self.pick_value(self.rf.bal(&key, sender)); let sp = if self.rng.chance(1, 4) { self.ctl } else { self.pick_addr(sender) }; TFn::Approve { sp, v } }
                40..=61 => { let v = self.pick_value(self.rf.bal(&key, from)); TFn::TransferFrom { from, to: self.pick_addr(sender), v } }
                62..=67 => { let v = self.pick_value(self.rf.bal(&key, from)); TFn::ApproveO { o: from, sp: sender, v } }
                68..=75 => { let v = self.pick_value(self.rf.bal(&key, from)); TFn::TransferFromO { sp: sender, from, to: self.pick_addr(sender), v } }
                76..=82 => { let v = self.pick_value(self.rf.bal(&key, sender)); TFn::Mint { a: if self.rng.chance(2, 3) { sender } else { self.pick_addr(sender) }, v } }
                83..=89 => { let v = self.pick_value(self.rf.bal(&key, from)); TFn::Burn { a: from, v } }
                90..=92 => TFn::Renounce,
                93..=95 => TFn::TransferOwnership { a: sender },
                _ => TFn::Unknown { data: self.garbage_calldata(false) },
            };
            Target::Tok { key, at, f }
        } else {
            let t = match pref_key { Some(k) if self.rng.chance(9, 10) => k, _ => self.pick_key() };
            // for the controller's transferFrom the spender is the sender; for its transfer it is the controller itself
            let from = match self.approver_of(&t, sender) {
                Some(o) if self.rng.chance(1, 2) => o,
                _ => if self.rng.chance(11, 20) { sender } else { people[self.rng.below(people.len() as u64) as usize] },
            };
            let f = match self.rng.below(100) {
                0..=23 => { let v = self.pick_value(self.rf.bal(&t, sender)); CFn::Transfer { t, to: self.pick_addr(sender), v } }
                24..=43 => { let v = self.pick_value(self.rf.bal(&t, sender)); let sp = if self.rng.chance(2, 5) { self.ctl } else { self.pick_addr(sender) }; CFn::Approve { t, sp, v } }
                44..=69 => { let v = self.pick_value(self.rf.bal(&t, from)); CFn::TransferFrom { t, from, to: self.pick_addr(sender), v } }
                70..=79 => { let v = self.pick_value(self.rf.bal(&t, sender)); CFn::Mint { t, to: if self.rng.chance(2, 3) { sender } else { self.pick_addr(sender) }, v } }
                80..=88 => { let v = self.pick_value(self.rf.bal(&t, from)); CFn::Burn { t, from, v } }
                89..=91 => CFn::Renounce,
                92..=95 => CFn::TransferOwnership { a: sender },
                _ => CFn::Unknown { data: self.garbage_calldata(true) },
            };
            Target::Ctl(f)
        };
        self.user_call(via, target);
    }

    /// A deposit / withdrawal the indexer interface must refuse (hash of an existing block, wrong transaction
    /// index): it is answered with an error and the ledger does not move (the reads that follow check that).
    fn refused_bridge_op(&mut self) {
        let raws = self.raw_tickers();
        let pk = self.rng.below(PKS.len() as u64) as usize;
        let raw = raws[self.rng.below(raws.len() as u64) as usize].to_string();
        let existing = self.run.inst.rpc("eth_getBlockByNumber", json!(["latest", false])).ok().and_then(|b| b["hash"].as_str().map(Hx::from_hex));
        let (hash, idx, why) = match (self.rng.below(2), existing) {
            (0, Some(h)) => (h, Idx::Auto, "hash of an existing block"),
            _ => (Hx::zero32(), Idx::Off(1 + self.rng.below(3) as i64), "wrong transaction index"),
        };
        let amt = U256::from(self.rng.range(1, 1000));
        let amount = self.amount_string(amt);
        let op = if self.rng.chance(1, 2) {
            Op::Deposit { to_pkscript: PKS[pk].into(), ticker: raw.clone(), amount, ts: self.block_ts, hash, tx_idx: idx, insc_id: self.fresh("rd") }
        } else {
            Op::Withdraw { from_pkscript: PKS[pk].into(), ticker: raw.clone(), amount, ts: self.block_ts, hash, tx_idx: idx, insc_id: self.fresh("rw") }
        };
        let out = self.run.step(&op).clone();
        self.h.txs += 1;
        self.h.log.push(format!("refused bridge operation ({}) pk{} {:?} -> {}", why, pk, raw, out.status.class()));
        self.count("refused_bridge_op");
        if out.status.is_ok() { self.fail(format!("a deposit / withdrawal with the {} was accepted", why), json!({"op": format!("{:?}", op).chars().take(300).collect::<String>()})); }
        let key = lower_bytes(raw.as_bytes());
        self.touched.insert((key, self.pk_addr[pk]));
    }

    fn gen_tx(&mut self) {
        if self.rng.chance(1, 14) { self.refused_bridge_op(); return; }
        let raws = self.raw_tickers();
        let roll = self.rng.below(100);
        let few_tokens = self.rf.tokens.len() < 2;
        if roll < 20 || (few_tokens && roll < 45) {
            let pk = self.rng.below(PKS.len() as u64) as usize;
            let raw = raws[self.rng.below(raws.len() as u64) as usize];
            let key = lower_bytes(raw.as_bytes());
            let room = U256::MAX - self.rf.supply(&key);
            let v = match self.rng.below(100) {
                0..=4 => U256::ZERO,
                5..=9 => U256::from(1),
                10..=13 => U256::from(1) << 255,
                14..=17 => U256::MAX,
                18..=23 => room,                                   // fills the supply up to 2^256 - 1
                24..=28 => room.saturating_add(U256::from(1)),     // one too many (if room < max)
                29..=33 => room / U256::from(2),
                _ => U256::from(self.rng.range(1, 100_000)),
            };
            self.deposit(pk, raw, v);
        } else if roll < 34 {
            let pk = self.rng.below(PKS.len() as u64) as usize;
            let raw = raws[self.rng.below(raws.len() as u64) as usize];
            let key = lower_bytes(raw.as_bytes());
            let v = self.pick_value(self.rf.bal(&key, self.pk_addr[pk]));
            self.withdraw(pk, raw, v);
        } else {
            self.gen_user_call();
        }
    }

    fn finalise(&mut self) -> bool {
        let out = self.run.step(&Op::Finalise { ts: self.block_ts, hash: Hx::zero32(), tx_count: Idx::Auto }).clone();
        if !out.status.is_ok() { self.h.aborted = Some(format!("finalise answered {:?}", out.status)); return false; }
        self.block_done();
        true
    }

    fn block_done(&mut self) {
        self.h.items.push("IBlock".into());
        self.h.log.push(format!("-- block {} --", self.height()));
        self.snaps.push(Snap { rf: self.rf.clone(), nonces: self.nonces });
        self.max_ever = self.max_ever.max(self.height());
    }

    /// after a call that may have removed blocks: restore the harness's beliefs
    fn rolled_back(&mut self, before: u64) {
        let now = self.height();
        if now < before {
            let drop = before - now;
            self.h.items.push(format!("IReorg {}", drop));
            self.snaps.truncate(now as usize + 1);
            let s = self.snaps.last().unwrap().clone();
            self.rf = s.rf; self.nonces = s.nonces;
            self.touched.clear();
            self.count("blocks_rolled_back");
        }
    }

    fn boundary(&mut self) {
        let h = self.height();
        let roll = self.rng.below(100);
        if roll < 14 {
            let lo = self.base_h.max(h.saturating_sub(6)).max(self.max_ever.saturating_sub(sim::W));
            if lo < h {
                let n = self.rng.range(lo, h - 1);
                let out = self.run.step(&Op::Reorg(n)).clone();
                self.h.log.push(format!("reorg({}) at height {} -> {}", n, h, out.status.class()));
                if !out.status.is_ok() { self.h.aborted = Some(format!("reorg({}) at {} answered {:?}", n, h, out.status)); return; }
                self.count("reorg");
                self.rolled_back(h);
                self.observe(true);
            }
        } else if roll < 22 {
            let n = self.rng.range(1, 3);
            let out = self.run.step(&Op::Mine { n, ts: self.block_ts + 1 }).clone();
            if !out.status.is_ok() { self.h.aborted = Some(format!("mine answered {:?}", out.status)); return; }
            for _ in 0..n { self.block_done(); }
            self.count("mine");
        } else if roll < 34 {
            let out = self.run.step(&Op::Commit).clone();
            if !out.status.is_ok() { self.h.aborted = Some(format!("commit answered {:?}", out.status)); return; }
            self.h.log.push("commit".into());
            self.count("commit");
            if self.rng.chance(1, 3) {
                let op = if self.rng.chance(1, 2) { Op::Reopen } else { Op::Clear };
                let out = self.run.step(&op).clone();
                if !out.status.is_ok() { self.h.aborted = Some(format!("{} answered {:?}", op.kind(), out.status)); return; }
                self.h.log.push(format!("{} right after commit", op.kind()));
                self.count("reopen_or_clear_after_commit");
                self.rolled_back(h);
                self.observe(true);
            }
        } else if roll < 39 {
            // drop whatever is not committed
            let op = if self.rng.chance(1, 2) { Op::Reopen } else { Op::Clear };
            let out = self.run.step(&op).clone();
            if !out.status.is_ok() { self.h.aborted = Some(format!("{} answered {:?}", op.kind(), out.status)); return; }
            self.h.log.push(format!("{} (uncommitted blocks are dropped) at height {} -> height {}", op.kind(), h, self.height()));
            self.count("reopen_or_clear_uncommitted");
            self.rolled_back(h);
            self.observe(true);
        }
    }
}

fn run_history(id: u64, rng: &mut Rng, blocks: u64) -> (Hist, Address, Address) {
    // the indexer address is the crate's constant; the controller's address is where the engine
    // says it deployed it (brc20_initialise), which must be the indexer's first CREATE
    let indexer: Address = *brc20_prog::verif_hooks::INDEXER_ADDRESS;
    let ctl = indexer.create(0);
    let mut fams: Vec<usize> = Vec::new();
    let nf = rng.range(2, 4) as usize;
    while fams.len() < nf { let f = rng.below(FAMILIES.len() as u64) as usize; if !fams.contains(&f) { fams.push(f); } }
    let h = Hist { id, items: vec![], log: vec![], failures: vec![], counters: BTreeMap::new(), txs: 0, reads: 0, aborted: None };
    let mut c = Ctx {
        rng, run: Run::new(), ctl, indexer,
        pk_addr: PKS.iter().map(|p| sim::pkscript_address(p)).collect(), tools: vec![], fams,
        rf: RefLedger::default(), nonces: [0; sim::SIGNERS], snaps: vec![], base_h: 1, max_ever: 0, uid: 0, h,
        touched: BTreeSet::new(), block_ts: 1_700_000_000, stray: Address::from_slice(&[0x5a; 20]),
    };
    // block 0: the controller; block 1: two contracts of a user through which calls are relayed
    let out = c.run.step(&Op::Initialise { hash: Hx::zero32(), ts: c.block_ts, height: 0 }).clone();
    if c.run.tracker.height() != Some(0) { c.h.aborted = Some(format!("initialise answered {:?}", out.status)); return (c.h, ctl, indexer); }
    let r = c.run.inst.rpc("brc20_getTxReceiptByInscriptionId", json!(["BRC20_CONTROLLER_INIT"]));
    match r.as_ref().ok().and_then(|v| v.get("contractAddress")).and_then(|a| a.as_str()) {
        Some(a) if Hx::from_hex(a).to_address() == ctl => {}
        other => { c.h.aborted = Some(format!("the controller is not at the indexer's first CREATE address: {:?}", other)); return (c.h, ctl, indexer); }
    }
    c.snaps.push(Snap { rf: c.rf.clone(), nonces: c.nonces });
    c.block_ts += 600;
    for i in 0..2 {
        let insc = c.fresh("tool");
        let tail = Tail { ts: c.block_ts, hash: Hx::zero32(), tx_idx: Idx::Auto, insc_id: insc, byte_len: 4000, op_return_tx_id: Hx::zero32() };
        let out = c.run.step(&Op::Deploy { from_pkscript: PKS[i].into(), data: Hx(sim::multitool_init()), enc: Enc::Hex, tail }).clone();
        match out.result.get("contractAddress").and_then(|a| a.as_str()) {
            Some(a) if receipt_status(&out.result) == Some(true) => c.tools.push(Hx::from_hex(a).to_address()),
            _ => { c.h.aborted = Some(format!("could not deploy the relay contract: {:?} {}", out.status, out.result)); return (c.h, ctl, indexer); }
        }
    }
    if !c.finalise() { return (c.h, ctl, indexer); }
    let _ = c.run.step(&Op::Commit);
    for _ in 0..blocks {
        if c.h.aborted.is_some() { break; }
        c.block_ts += 600;
        let n = match c.rng.below(10) { 0 => 0, 1 | 2 => 1, _ => c.rng.range(2, 7) };
        for _ in 0..n { if c.h.aborted.is_none() { c.gen_tx(); } }
        if c.h.aborted.is_some() { break; }
        if !c.finalise() { break; }
        c.observe(false);
        c.boundary();
    }
    if c.h.aborted.is_none() { c.observe(true); }
    // end game: the last ledger block ages to the edge of the window (W-1 empty blocks on top), a commit exactly
    // then, and at once the deepest reorg the engine admits: below that block. The ledger must be the one as of
    // the target block (what no block of the surviving chain minted or burned is not there).
    if c.h.aborted.is_none() && id % 3 != 2 {
        let b = c.height();
        if b >= c.base_h + 1 && c.max_ever <= b + sim::W - 1 {
            let n = sim::W - 1;
            let out = c.run.step(&Op::Mine { n, ts: c.block_ts + 1 }).clone();
            if !out.status.is_ok() { c.h.aborted = Some(format!("mine answered {:?}", out.status)); return (c.h, ctl, indexer); }
            for _ in 0..n { c.block_done(); }
            let out = c.run.step(&Op::Commit).clone();
            if !out.status.is_ok() { c.h.aborted = Some(format!("commit answered {:?}", out.status)); return (c.h, ctl, indexer); }
            c.h.log.push("commit (end game)".into());
            let h = c.height();
            let out = c.run.step(&Op::Reorg(b - 1)).clone();
            c.h.log.push(format!("reorg({}) at height {} (end game: deepest admissible, right after a commit) -> {}", b - 1, h, out.status.class()));
            if !out.status.is_ok() { c.h.aborted = Some(format!("reorg({}) at {} answered {:?}", b - 1, h, out.status)); return (c.h, ctl, indexer); }
            c.count("end_game_deepest_reorg_after_commit");
            c.rolled_back(h);
            c.observe(true);
        }
    }
    (c.h, ctl, indexer)
}

/// The one functional defect found: BRC20_Controller.transfer spends the allowance the holder
/// gave to the controller's own address.  Minimal history on a fresh engine.
fn directed_controller_transfer() -> Option<Value> {
    let mut run = Run::new();
    let indexer: Address = *brc20_prog::verif_hooks::INDEXER_ADDRESS;
    let ctl = indexer.create(0);
    let ts = 1_700_000_000u64;
    let (a0, a1) = (sim::pkscript_address(PKS[0]), sim::pkscript_address(PKS[1]));
    let mut n = 0;
    let mut call = |run: &mut Run, f: CFn| -> Option<bool> {
        n += 1;
        let tail = Tail { ts: ts + 600, hash: Hx::zero32(), tx_idx: Idx::Auto, insc_id: format!("dir{}i0", n), byte_len: 4000, op_return_tx_id: Hx::zero32() };
        let out = run.step(&Op::Call { from_pkscript: PKS[0].into(), to: To::ByAddress(Hx::addr(ctl)), data: Hx(f.calldata()), enc: Enc::Hex, tail }).clone();
        receipt_status(&out.result)
    };
    run.step(&Op::Initialise { hash: Hx::zero32(), ts, height: 0 });
    let d = run.step(&Op::Deposit { to_pkscript: PKS[0].into(), ticker: "ORDI".into(), amount: "100".into(), ts: ts + 600, hash: Hx::zero32(), tx_idx: Idx::Auto, insc_id: "dir0i0".into() }).clone();
    if receipt_status(&d.result) != Some(true) { return None; }
    let t = b"ordi".to_vec();
    let s1 = call(&mut run, CFn::Transfer { t: t.clone(), to: a1, v: U256::from(10) });
    let s2 = call(&mut run, CFn::Approve { t: t.clone(), sp: ctl, v: U256::from(25) });
    let s3 = call(&mut run, CFn::Transfer { t: t.clone(), to: a1, v: U256::from(10) });
    run.step(&Op::Finalise { ts: ts + 600, hash: Hx::zero32(), tx_count: Idx::Auto });
    let b0 = run.step(&Op::Balance { pkscript: PKS[0].into(), ticker: "ordi".into() }).result.clone();
    let b1 = run.step(&Op::Balance { pkscript: PKS[1].into(), ticker: "ordi".into() }).result.clone();
    if s1 == Some(false) {
        Some(json!({
            "what": "finding: BRC20_Controller.transfer(ticker, to, value) within the sender's balance reverts unless the sender has approved the controller's own address (it calls the token's 3-argument transferFrom, whose spender is the controller)",
            "case": {"history": [
                "brc20_initialise", "brc20_deposit(pk0, \"ORDI\", 100) -> status 1",
                format!("brc20_call(pk0 -> controller.transfer(\"ordi\", {}, 10)) -> status {:?}", a1, s1),
                format!("brc20_call(pk0 -> controller.approve(\"ordi\", {} = the controller, 25)) -> status {:?}", ctl, s2),
                format!("brc20_call(pk0 -> controller.transfer(\"ordi\", {}, 10)) -> status {:?}", a1, s3),
                "brc20_finaliseBlock", format!("brc20_balance(pk0, ordi) = {}, brc20_balance(pk1, ordi) = {}", b0, b1)],
                "sender": a0.to_string()}
        }))
    } else { None }
}

/// Long numerals and byte lists repeat a lot (addresses, 2^256-1, tickers) and dominate the time
/// Coq needs to read a case file: they are named once in the prelude of the file.
#[derive(Default)]
struct Intern { nums: BTreeMap<String, usize>, lists: BTreeMap<String, usize> }
impl Intern {
    fn squeeze(&mut self, s: &str) -> String {
        // 1. byte lists: '[' digits ';' ' ' ']' with at least one digit
        let b = s.as_bytes();
        let mut out = String::with_capacity(s.len());
        let mut i = 0;
        while i < b.len() {
            if b[i] == b'[' {
                let mut j = i + 1;
                let mut digits = false;
                while j < b.len() && (b[j].is_ascii_digit() || b[j] == b';' || b[j] == b' ') { digits |= b[j].is_ascii_digit(); j += 1; }
                if j < b.len() && b[j] == b']' && digits {
                    let n = self.lists.len();
                    let id = *self.lists.entry(s[i..=j].to_string()).or_insert(n);
                    out.push_str(&format!("b{}", id));
                    i = j + 1;
                    continue;
                }
            }
            out.push(b[i] as char);
            i += 1;
        }
        // 2. numerals of 10 digits or more
        let b = out.as_bytes();
        let mut out2 = String::with_capacity(out.len());
        let mut i = 0;
        while i < b.len() {
            if b[i].is_ascii_digit() && (i == 0 || !(b[i - 1].is_ascii_alphanumeric() || b[i - 1] == b'_')) {
                let mut j = i;
                while j < b.len() && b[j].is_ascii_digit() { j += 1; }
                if j - i >= 10 {
                    let n = self.nums.len();
                    let id = *self.nums.entry(out[i..j].to_string()).or_insert(n);
                    out2.push_str(&format!("n{}", id));
                } else { out2.push_str(&out[i..j]); }
                i = j;
                continue;
            }
            out2.push(b[i] as char);
            i += 1;
        }
        out2
    }
    fn prelude(&self) -> String {
        let mut s = String::from("Open Scope N_scope.\n");
        let mut ls: Vec<(&String, &usize)> = self.lists.iter().collect(); ls.sort_by_key(|x| *x.1);
        for (l, i) in ls { s.push_str(&format!("Definition b{} : list N := {}.\n", i, l)); }
        let mut ns: Vec<(&String, &usize)> = self.nums.iter().collect(); ns.sort_by_key(|x| *x.1);
        for (n, i) in ns { s.push_str(&format!("Definition n{} : N := {}.\n", i, n)); }
        s
    }
}

fn case_term(h: &Hist, ctl: Address, indexer: Address, addrs: &[Address], it: &mut Intern) -> String {
    let t = format!("{{| lc_id := {}; lc_indexer := {}; lc_ctl := {}; lc_addrs := {};\n   lc_items := {} |}}",
        h.id, cn(indexer), cn(ctl), cf::list(addrs, |a| cn(*a)), cf::list(&h.items, |s| format!("\n    {}", s)));
    it.squeeze(&t)
}

pub fn run(out: &Path, seed: u64, thorough: bool) -> Result<(), Box<dyn std::error::Error>> {
    let t0 = std::time::Instant::now();
    let mut rng = Rng::new(seed);
    let (histories, blocks, budget_s) = if thorough { (400u64, 40u64, 900u64) } else { (60, 18, 75) };
    let histories = std::env::var("C07_HIST").ok().and_then(|s| s.parse().ok()).unwrap_or(histories);
    let ctl = brc20_prog::verif_hooks::INDEXER_ADDRESS.create(0);
    let addrs: Vec<Address> = (1..=48u64).map(|n| ctl.create(n)).collect();
    let mut terms = Vec::new();
    let mut intern = Intern::default();
    let mut jsonl = String::new();
    let mut failures: Vec<Value> = Vec::new();
    let mut counters: BTreeMap<String, u64> = BTreeMap::new();
    let (mut txs, mut reads, mut aborted) = (0u64, 0u64, 0u64);
    let mut samples: Vec<Value> = Vec::new();
    let mut distinct: BTreeSet<String> = BTreeSet::new();
    for id in 0..histories {
        if t0.elapsed().as_secs() > budget_s { break; }
        let mut r = rng.fork();
        let (h, c, ix) = run_history(id, &mut r, blocks);
        txs += h.txs; reads += h.reads;
        for (k, v) in &h.counters { *counters.entry(k.clone()).or_default() += v; }
        if let Some(a) = &h.aborted {
            aborted += 1;
            failures.push(json!({"what": format!("history aborted: {}", sim::err_class(a)), "case": {"id": h.id, "why": a, "history_tail": h.log.iter().rev().take(40).rev().collect::<Vec<_>>()}}));
        }
        failures.extend(h.failures.iter().cloned());
        if h.items.len() >= 2 { distinct.insert(h.items.join(";")); }
        terms.push(case_term(&h, c, ix, &addrs, &mut intern));
        jsonl.push_str(&json!({"id": h.id, "items": h.items, "log": h.log}).to_string()); jsonl.push('\n');
        if samples.len() < 2 { samples.push(json!({"id": h.id, "first_items": h.items.iter().take(25).collect::<Vec<_>>(), "log_head": h.log.iter().take(25).collect::<Vec<_>>()})); }
    }
    if let Some(f) = directed_controller_transfer() { failures.push(f); }
    let imports = format!("From Brc.Model Require Import Base Ledger Tie07.\n{}", intern.prelude());
    let files = cf::write_shards(out, "c07_l", &imports, "lcase", "bad_lcases", &terms, if thorough { 32 } else { 16 })?;
    std::fs::write(out.join("c07_cases.jsonl"), jsonl)?;
    let meta = json!({
        "files": files,
        "evaluations": terms.len(),
        "distinct_nontrivial": distinct.len(),
        "rule": "one evaluation = one history on a fresh engine: brc20_initialise, a block deploying two relay contracts, then blocks of 0-7 transactions drawn from deposits / withdrawals (6 pkscripts, 2-4 ticker families in several spellings incl. empty, NUL, Latin-1, emoji, 44 bytes; amounts 0, 1, 2^255, 2^256-1, exactly / one above what fits) and user calls of every external function of the controller and of the token contracts (sent from pkscripts, signers and a relay contract; values 0, 1, balance, balance+-1, fractions, 2^255, 2^256-1), with reorgs, mined blocks, commits, clear/reopen at block boundaries; after every block a sample of brc20_balance / eth_call reads, after every rollback and at the end all of them. Non-trivial: at least 2 items; distinct = distinct item sequences.",
        "transactions": txs, "reads": reads, "histories_aborted": aborted,
        "outcomes_by_function": counters,
        "harness_seconds": t0.elapsed().as_secs(),
        "samples": samples,
        "impl_failures": failures,
    });
    std::fs::write(out.join("c07_meta.json"), serde_json::to_string_pretty(&meta)?)?;
    Ok(())
}

// ------------------------------------------------------------------------------------------
// development probe
// ------------------------------------------------------------------------------------------

pub fn probe() -> Result<(), Box<dyn std::error::Error>> {
    // what "case-insensitive" means outside ASCII: deposit under one spelling, ask under others
    let mut run = Run::new();
    let ts = 1_700_000_000u64;
    run.step(&Op::Initialise { hash: Hx::zero32(), ts, height: 0 });
    let deps = ["\u{391}\u{3a3}", "\u{130}x", "STRASSE", "\u{1e9e}"];
    for (i, t) in deps.iter().enumerate() {
        let o = run.step(&Op::Deposit { to_pkscript: PKS[0].into(), ticker: t.to_string(), amount: "5".into(), ts: ts + 600, hash: Hx::zero32(), tx_idx: Idx::Auto, insc_id: format!("pr{}i0", i) }).clone();
        println!("deposit {:?} (lower {:?}) -> {:?}", t, t.to_lowercase(), receipt_status(&o.result));
    }
    run.step(&Op::Finalise { ts: ts + 600, hash: Hx::zero32(), tx_count: Idx::Auto });
    for q in ["\u{391}\u{3a3}", "\u{3b1}\u{3c3}", "\u{3b1}\u{3c2}", "\u{130}x", "i\u{307}x", "ix", "Ix", "strasse", "stra\u{df}e", "\u{1e9e}", "\u{df}", "ss"] {
        let o = run.step(&Op::Balance { pkscript: PKS[0].into(), ticker: q.to_string() }).clone();
        println!("balance {:?} (lower {:?}, upper {:?}) = {}", q, q.to_lowercase(), q.to_uppercase(), o.result);
    }
    // one random history, printed
    let t0 = std::time::Instant::now();
    let seed: u64 = std::env::var("C07_SEED").ok().and_then(|s| s.parse().ok()).unwrap_or(7);
    let id: u64 = std::env::var("C07_ID").ok().and_then(|s| s.parse().ok()).unwrap_or(0);
    let blocks: u64 = std::env::var("C07_BLOCKS").ok().and_then(|s| s.parse().ok()).unwrap_or(12);
    let mut top = Rng::new(seed);
    let mut rng = top.fork();
    for _ in 0..id { rng = top.fork(); }
    let (h, _, _) = run_history(id, &mut rng, blocks);
    for l in &h.log { println!("{}", l); }
    println!("items {} txs {} reads {} aborted {:?} failures {}", h.items.len(), h.txs, h.reads, h.aborted, h.failures.len());
    for f in &h.failures { println!("{}", f); }
    println!("{:?}", h.counters);
    println!("elapsed {:?}", t0.elapsed());
    Ok(())
}
