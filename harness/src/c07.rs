//! C07 tie: the BRC20 bridge ledger. (probe stage)
#![allow(dead_code)]
use std::path::Path;

use alloy::primitives::{keccak256, Address, U256};
use serde_json::Value;

use crate::sim::{self, Enc, Hx, Idx, Op, Run, Tail, To};

// ------------------------------------------------------------------------------------------
// hand-written ABI encoding (independent of alloy's sol! used by the crate)
// ------------------------------------------------------------------------------------------

#[derive(Clone, Debug)]
pub enum Arg { B(Vec<u8>), A(Address), U(U256) }

pub fn selector(sig: &str) -> [u8; 4] { let h = keccak256(sig.as_bytes()); [h[0], h[1], h[2], h[3]] }

pub fn abi(sig: &str, args: &[Arg]) -> Vec<u8> {
    let mut out = selector(sig).to_vec();
    let head_len = 32 * args.len();
    let mut head: Vec<u8> = Vec::new();
    let mut tail: Vec<u8> = Vec::new();
    for a in args {
        match a {
            Arg::A(x) => { head.extend_from_slice(&[0u8; 12]); head.extend_from_slice(x.as_slice()); }
            Arg::U(x) => head.extend_from_slice(&x.to_be_bytes::<32>()),
            Arg::B(b) => {
                head.extend_from_slice(&U256::from(head_len + tail.len()).to_be_bytes::<32>());
                tail.extend_from_slice(&U256::from(b.len()).to_be_bytes::<32>());
                tail.extend_from_slice(b);
                let pad = (32 - b.len() % 32) % 32;
                tail.extend(std::iter::repeat(0u8).take(pad));
            }
        }
    }
    out.extend_from_slice(&head);
    out.extend_from_slice(&tail);
    out
}

fn pk_call(pk: &str, to: Address, data: Vec<u8>, ts: u64, insc: &str) -> Op {
    Op::Call { from_pkscript: pk.to_string(), to: To::ByAddress(Hx::addr(to)), data: Hx(data), enc: Enc::Hex,
        tail: Tail { ts, hash: Hx::zero32(), tx_idx: Idx::Auto, insc_id: insc.to_string(), byte_len: 4000, op_return_tx_id: Hx::zero32() } }
}

fn status_of(v: &Value) -> String {
    match v {
        Value::Object(_) => format!("status={} logs={}", v.get("status").map(|s| s.to_string()).unwrap_or_default(), v.get("logs").and_then(|l| l.as_array()).map(|a| a.len()).unwrap_or(0)),
        Value::Array(a) => format!("[{}]", a.iter().map(status_of).collect::<Vec<_>>().join(", ")),
        x => x.to_string(),
    }
}

pub fn probe() -> Result<(), Box<dyn std::error::Error>> {
    let t0 = std::time::Instant::now();
    let mut run = Run::new();
    let ctl: Address = Hx::from_hex(sim::CONTROLLER).to_address();
    let pk0 = sim::PKSCRIPTS[0];
    let pk1 = sim::PKSCRIPTS[1];
    let a0 = sim::pkscript_address(pk0);
    let a1 = sim::pkscript_address(pk1);
    let ts = 1_700_000_000u64;
    let mut n = 0u64;
    let mut id = || { n += 1; format!("p{}i0", n) };
    let show = |what: &str, o: &sim::OpOut| println!("{:<48} {:?} {}", what, o.status.class(), status_of(&o.result));
    let o = run.step(&Op::Initialise { hash: Hx::zero32(), ts, height: 0 }).clone(); show("init", &o);
    let dep = |pk: &str, t: &str, amt: &str, insc: String| Op::Deposit { to_pkscript: pk.into(), ticker: t.into(), amount: amt.into(), ts: ts + 1, hash: Hx::zero32(), tx_idx: Idx::Auto, insc_id: insc };
    let o = run.step(&dep(pk0, "ORDI", "0x64", id())).clone(); show("deposit pk0 ORDI 100", &o);
    println!("{}", serde_json::to_string_pretty(&o.result).unwrap());
    let o = run.step(&pk_call(pk0, ctl, abi("transfer(bytes,address,uint256)", &[Arg::B(b"ordi".to_vec()), Arg::A(a1), Arg::U(U256::from(10))]), ts + 1, &id())).clone(); show("pk0 ctl.transfer ordi->a1 10 (no approval)", &o);
    let o = run.step(&pk_call(pk0, ctl, abi("transfer(bytes,address,uint256)", &[Arg::B(b"ordi".to_vec()), Arg::A(a1), Arg::U(U256::from(0))]), ts + 1, &id())).clone(); show("pk0 ctl.transfer ordi->a1 0", &o);
    let o = run.step(&pk_call(pk0, ctl, abi("transferFrom(bytes,address,address,uint256)", &[Arg::B(b"ordi".to_vec()), Arg::A(a0), Arg::A(a1), Arg::U(U256::from(10))]), ts + 1, &id())).clone(); show("pk0 ctl.transferFrom ordi a0->a1 10", &o);
    let o = run.step(&pk_call(pk0, ctl, abi("approve(bytes,address,uint256)", &[Arg::B(b"ordi".to_vec()), Arg::A(ctl), Arg::U(U256::from(25))]), ts + 1, &id())).clone(); show("pk0 ctl.approve ordi spender=ctl 25", &o);
    let o = run.step(&pk_call(pk0, ctl, abi("transfer(bytes,address,uint256)", &[Arg::B(b"ordi".to_vec()), Arg::A(a1), Arg::U(U256::from(10))]), ts + 1, &id())).clone(); show("pk0 ctl.transfer ordi->a1 10 (after approval)", &o);
    let o = run.step(&pk_call(pk0, ctl, abi("mint(bytes,address,uint256)", &[Arg::B(b"ordi".to_vec()), Arg::A(a0), Arg::U(U256::from(10))]), ts + 1, &id())).clone(); show("pk0 ctl.mint", &o);
    let o = run.step(&pk_call(pk0, ctl, abi("transfer(bytes,address,uint256)", &[Arg::B(b"nope".to_vec()), Arg::A(a1), Arg::U(U256::from(0))]), ts + 1, &id())).clone(); show("pk0 ctl.transfer unknown ticker 0", &o);
    let wd = Op::Withdraw { from_pkscript: pk0.into(), ticker: "Ordi".into(), amount: "0x51".into(), ts: ts + 1, hash: Hx::zero32(), tx_idx: Idx::Auto, insc_id: id() };
    let o = run.step(&wd).clone(); show("withdraw pk0 Ordi 81 (has 80)", &o);
    let wd = Op::Withdraw { from_pkscript: pk0.into(), ticker: "Ordi".into(), amount: "80".into(), ts: ts + 1, hash: Hx::zero32(), tx_idx: Idx::Auto, insc_id: id() };
    let o = run.step(&wd).clone(); show("withdraw pk0 Ordi \"80\" decimal string", &o);
    let o = run.step(&Op::Finalise { ts: ts + 1, hash: Hx::zero32(), tx_count: Idx::Auto }).clone(); show("finalise", &o);
    for (p, t) in [(pk0, "ordi"), (pk0, "ORDI"), (pk1, "oRdI"), (pk1, "nope"), (pk1, "")] {
        let o = run.step(&Op::Balance { pkscript: p.into(), ticker: t.into() }).clone();
        println!("balance({}, {:?}) = {:?} {}", &p[..6], t, o.status.class(), o.result);
    }
    let ec = |run: &mut Run, to: Address, data: Vec<u8>| { let o = run.step(&Op::EthCall { from: None, to: Some(Hx::addr(to)), data: Hx(data), block: None }).clone(); format!("{:?} {}", o.status, o.result) };
    println!("getTickerAddress(ordi) = {}", ec(&mut run, ctl, abi("getTickerAddress(bytes)", &[Arg::B(b"ordi".to_vec())])));
    println!("getTickerAddress(nope) = {}", ec(&mut run, ctl, abi("getTickerAddress(bytes)", &[Arg::B(b"nope".to_vec())])));
    println!("ctl.balanceOf(nope,a0) = {}", ec(&mut run, ctl, abi("balanceOf(bytes,address)", &[Arg::B(b"nope".to_vec()), Arg::A(a0)])));
    println!("ctl.allowance(ordi,a0,ctl) = {}", ec(&mut run, ctl, abi("allowance(bytes,address,address)", &[Arg::B(b"ordi".to_vec()), Arg::A(a0), Arg::A(ctl)])));
    println!("ctl.owner() = {}", ec(&mut run, ctl, abi("owner()", &[])));
    println!("expected first token = {:?}", ctl.create(1));
    let tok = ctl.create(1);
    println!("tok.totalSupply = {}", ec(&mut run, tok, abi("totalSupply()", &[])));
    println!("tok.owner = {}", ec(&mut run, tok, abi("owner()", &[])));
    println!("tok.name = {}", ec(&mut run, tok, abi("name()", &[])));
    println!("tok.decimals = {}", ec(&mut run, tok, abi("decimals()", &[])));
    println!("elapsed {:?}, calls {}", t0.elapsed(), run.inst.calls);
    Ok(())
}

pub fn run(_out: &Path, _seed: u64, _thorough: bool) -> Result<(), Box<dyn std::error::Error>> { probe() }
